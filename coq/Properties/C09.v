(* Properties/C09.v -- C09: grain-boundary sliding: small grains are floored and do not rotate *)
From Coq Require Import Reals ZArith List.
From PV Require Import Num NumR Model_core Model_minerals Proofs_core Proofs_minerals.
Import ListNotations.
Open Scope R_scope.

(* volume of grain i after apply_gbs: floored to chi/n iff f_i < chi/n (exact tie is NOT
   floored), then divided by the ONE common sum S: unfloored grains keep their volume
   relative to each other *)
Theorem C09_gbs_volume : forall chi n (fs : list R) i, (i < length fs)%nat ->
  let S := rsum (map (floor1 chi n) fs) in
  nth i (@gbs_fracs NumR chi n fs) 0 =
  (if Rltb (nth i fs 0) (thr chi n) then thr chi n else nth i fs 0) / S.
Proof. exact gbs_frac_nth. Qed.

(* orientation of grain i after apply_gbs: the reference (start-of-update) orientation iff
   floored, else the integrated orientation *)
Theorem C09_gbs_orientation : forall chi n (os prev : list (list R)) (fs : list R) i d,
  (i < length os)%nat -> length os = length prev -> length os = length fs ->
  nth i (@gbs_orient NumR chi n os prev fs) d =
  if Rltb (nth i fs 0) (thr chi n) then nth i prev d else nth i os d.
Proof. exact gbs_orient_nth. Qed.

Theorem C09_gbs_sum_one : forall chi n (fs : list R), 0 < rsum (map (floor1 chi n) fs) ->
  rsum (@gbs_fracs NumR chi n fs) = 1.
Proof. exact gbs_sum_one. Qed.

Theorem C09_lower_bound : forall chi n (fs : list R) i,
  (0 < n)%nat -> length fs = n -> 0 <= chi -> Forall (fun x => 0 <= x) fs -> rsum fs = 1 ->
  (i < n)%nat ->
  thr chi n / (1 + chi) <= nth i (@gbs_fracs NumR chi n fs) 0.
Proof. exact gbs_lower_bound. Qed.

Theorem C09_order_preserved : forall chi n (fs : list R) i j,
  (i < length fs)%nat -> (j < length fs)%nat -> 0 < rsum (map (floor1 chi n) fs) ->
  nth i fs 0 <= nth j fs 0 ->
  nth i (@gbs_fracs NumR chi n fs) 0 <= nth j (@gbs_fracs NumR chi n fs) 0.
Proof. exact gbs_monotone. Qed.

Theorem C09_chi_zero : forall n (fs : list R) (os prev : list (list R)),
  Forall (fun x => 0 <= x) fs -> length os = length prev -> length os = length fs ->
  @gbs_orient NumR 0 n os prev fs = os /\ @gbs_floor NumR 0 n fs = fs.
Proof. exact gbs_chi0. Qed.

(* what an update stores IS the GBS result computed from the integrator's final vector with
   the start-of-update snapshot as reference (the second clip / normalisation are identities) *)
Theorem C09_update_stores_gbs : forall n chi (prev : @snapshot NumR) (y : list R),
  (0 < n)%nat -> 0 <= chi -> length y = (9 + 10 * n)%nat -> 0 < rsum (clipped_fracs y n) ->
  length (sn_o prev) = n -> Forall grain_ok (sn_o prev) ->
  sn_o (snd (@update NumR n chi prev y))
    = @gbs_orient NumR chi n (@chunks9 NumR (@ev_o NumR y n) n) (sn_o prev) (@ev_f NumR y n) /\
  sn_f (snd (@update NumR n chi prev y))
    = map (fun x => x / 1) (@gbs_fracs NumR chi n (@ev_f NumR y n)).
Proof. exact update_stores_gbs. Qed.

Example C09_nonvacuous : (0 < 2)%nat /\ 0 <= 0.3 /\ rsum [0.9; 0.1] = 1 /\ Rltb 0.1 (thr 0.3 2) = true.
Proof. exact C09_nonvacuous_proof. Qed.

(* ---- round 5: the sliding reference over a whole solver loop (Model_minerals.solver_loop / update_steps, tied
   to the `while solver.status == "running"` loop of Mineral.update_orientations by
   Inst_minerals_drv.update_loop_inst_{1_2,1_3,2_2,3_2}) ------------------------------------------------------ *)
From PV Require Import Proofs_driver.

(* whatever the integrator's state vectors at the earlier steps of an update were, the snapshot that is stored
   is `update` applied to the LAST vector with the snapshot the update STARTED from as sliding reference
   (C09_update_stores_gbs then gives the per-grain rule) *)
Theorem C09_sliding_reference_is_start_of_update : forall n chi (h : @history NumR) (ys : list (list R)) (y : list R),
  snd (@update_steps NumR n chi h (map Ok (ys ++ [y]))) = h ++ [snd (@update NumR n chi (@last_snapshot NumR h) y)]
  /\ fst (@update_steps NumR n chi h (map Ok (ys ++ [y]))) = Ok (fst (@update NumR n chi (@last_snapshot NumR h) y)).
Proof. exact update_steps_stores. Qed.
