(* Properties/C15.v -- C15: volume-weighted resampling draws grains in proportion to their
   volume.  Only statements; each is closed by `exact` of a lemma of Proofs_stats.v /
   Proofs_stats_batch.v.
   Model: Model_stats.resample (variant `faithful` = the code as it is), R instance.
   ORACLES: argsort (np.argsort per snapshot) and draw (the calls rng.random(n) of
   numpy's Generator, in order); the hypotheses used are
     argsort_perm : argsort i f is a permutation of 0..len(f)-1      (tie order is free;
                    that f o pi is ascending is checked at run time; only the converse u = 0
                    statement takes "first sorted entry = minimum" as a hypothesis)
     draw_ok      : draw i n has n entries, each in [0,1)
     draw_pos     : each entry is > 0 (true of numpy's generator except with probability
                    2^-53 per draw; only zero_volume_never uses it) *)
From Coq Require Import Reals ZArith List Permutation.
From PV Require Import Num NumR Model_stats Proofs_stats Proofs_stats_batch Proofs_stats_range Inst_stats Inst_stats_all
                       Model_stats_session Proofs_stats_session.
From PV.gen Require Import Gen_stats.
Import ListNotations.
Open Scope R_scope.

(* every output pair is (orient_i[j], f_i[j]) for one j of the SAME snapshot i: the pairing
   of orientation and volume is preserved.  Needs no hypothesis on the oracles at all
   (also holds for the side="right" mutation). *)
Theorem C15_draw_membership :
  forall O argsort draw right so sf (os : list (list O)) (fs : list (list R)) ns oo ff,
  @resample NumR O argsort draw (mk_variant right 0 true) so sf os fs ns = Ok (oo, ff) ->
  forall i s orow frow o x,
    nth_error oo i = Some orow -> nth_error ff i = Some frow ->
    nth_error orow s = Some o -> nth_error frow s = Some x ->
    exists osnap fsnap j, nth_error os i = Some osnap /\ nth_error fs i = Some fsnap /\
      nth_error osnap j = Some o /\ nth_error fsnap j = Some x.
Proof. intros O argsort draw. exact (draw_membership argsort draw). Qed.

(* what one snapshot returns: with fa the volumes gathered in sort order, oa the
   orientations gathered in the same order and c the cumulative volumes with the last
   entry pinned to 1, draw s returns (oa[k], fa[k]) for k = searchsorted(c, u_s) *)
Theorem C15_draw_position :
  forall O (orient : list O) (f : list R) pi us os' fs',
  @resample_one NumR O faithful orient f pi us = Ok (os', fs') ->
  exists fa oa c,
    gather f pi = Ok fa /\ gather orient pi = Ok oa /\ @pin_last NumR (@cumsum NumR fa) = Ok c /\
    Forall2 (fun u o => nth_error oa (@searchsorted NumR false c u) = Some o) us os' /\
    Forall2 (fun u x => nth_error fa (@searchsorted NumR false c u) = Some x) us fs'.
Proof. intros O. exact (resample_one_inv false). Qed.

(* ... where fa is a rearrangement of the snapshot's volumes (same sum, same signs) *)
Theorem C15_sorted_is_rearrangement :
  forall (f : list R) pi fa, is_perm (length f) pi -> gather f pi = Ok fa ->
  Permutation fa f /\ lsum fa = lsum f /\ (Forall (fun x => 0 <= x) f -> Forall (fun x => 0 <= x) fa).
Proof. exact sorted_is_rearrangement. Qed.

(* "each grain is drawn with probability equal to its volume fraction": for normalised
   non-negative volumes the set of variates u > 0 selecting sorted position k is exactly
   the interval (psum k, psum (k+1)] of cumulative volume, whose length is the volume of
   that grain (psum fa k = fa_0 + ... + fa_(k-1)).  Stated as the measure of the
   preimage; the law of large numbers is not formalised. *)
Theorem C15_draw_interval :
  forall (fa c : list R) k u,
  Forall (fun x => 0 <= x) fa -> lsum fa = 1 -> @pin_last NumR (@cumsum NumR fa) = Ok c ->
  (k < length fa)%nat -> 0 < u ->
  (@searchsorted NumR false c u = k <-> psum fa k < u <= psum fa (S k))
  /\ psum fa (S k) - psum fa k = nth k fa 0.
Proof. exact draw_interval. Qed.

(* the RANGE of the drawn (sorted) position is the grain count, whatever the number of samples: for every M >= 1 and every
   k < M there are normalised non-negative volumes of M grains and a legal variate 0 < u < 1 that select position k.  A
   container for the drawn positions must therefore hold every value up to M - 1 (seeded change C15f sized it by n_samples) *)
Theorem C15_draw_position_range :
  forall (M k : nat), (k < M)%nat ->
  exists (fa c : list R) (u : R),
    length fa = M /\ Forall (fun x => 0 <= x) fa /\ lsum fa = 1 /\ @pin_last NumR (@cumsum NumR fa) = Ok c /\
    0 < u < 1 /\ @searchsorted NumR false c u = k.
Proof. exact draw_position_range. Qed.

(* zero-volume grains are never drawn (variates in (0,1)) *)
Theorem C15_zero_volume_never :
  forall O argsort draw so sf (os : list (list O)) (fs : list (list R)) ns oo ff,
  @resample NumR O argsort draw faithful so sf os fs ns = Ok (oo, ff) ->
  argsort_perm argsort -> draw_ok draw -> draw_pos draw ->
  Forall (fun f => Forall (fun x => 0 <= x) f /\ lsum f = 1) fs ->
  Forall (fun row => Forall (fun x => 0 < x) row) ff.
Proof. intros O argsort draw. exact (zero_volume_never argsort draw). Qed.

(* the excluded edge: u = 0 selects sorted position 0, which may be an empty grain
   (reachable only by substituting the PRNG; recorded, not raised) *)
Theorem C15_zero_volume_u0_witness :
  @resample_one NumR nat faithful [7; 8]%nat [0; 1] [0; 1]%nat [0] = Ok ([7%nat], [0]).
Proof. exact zero_volume_u0_witness. Qed.

(* output shapes (N, n_samples[, 3, 3]); n_samples defaults to the grain count *)
Theorem C15_shapes :
  forall O argsort draw right so sf (os : list (list O)) (fs : list (list R)) ns oo ff,
  @resample NumR O argsort draw (mk_variant right 0 true) so sf os fs ns = Ok (oo, ff) ->
  (forall i n, length (draw i n) = n) ->
  length oo = length os /\ length ff = length os /\
  Forall (fun row => length row = n_of sf ns) oo /\ Forall (fun row => length row = n_of sf ns) ff.
Proof. intros O argsort draw. exact (shapes argsort draw). Qed.

Theorem C15_default_n_samples : forall N M, n_of [N; M] None = M.
Proof. reflexivity. Qed.

(* every output volume is an entry of the sorted volume vector of its snapshot *)
Theorem C15_volumes_from_sorted :
  forall O (orient : list O) (f : list R) pi us os' fs',
  @resample_one NumR O faithful orient f pi us = Ok (os', fs') ->
  exists fa, gather f pi = Ok fa /\ Forall (fun x => In x fa) fs'.
Proof. intros O. exact volumes_from_sorted. Qed.

(* consistent input is never refused and nothing raises (any N, M >= 1, any n_samples >= 0) *)
Theorem C15_accepts_wellformed :
  forall O argsort draw right so sf (os : list (list O)) (fs : list (list R)) ns,
  data_ok so sf os fs -> (1 <= nth 1 sf 0)%nat -> (forall z, ns = Some z -> (0 <= z)%Z) ->
  argsort_perm argsort -> draw_ok draw ->
  exists r, @resample NumR O argsort draw (mk_variant right 0 true) so sf os fs ns = Ok r.
Proof. intros O argsort draw. exact (resample_total argsort draw). Qed.

(* same inputs, same variates, same sort order => same result *)
Theorem C15_deterministic :
  forall O (a a' : nat -> list R -> list nat) (d d' : nat -> nat -> list R) v so sf (os : list (list O)) fs ns,
  (forall i f, a i f = a' i f) -> (forall i n, d i n = d' i n) ->
  @resample NumR O a d v so sf os fs ns = @resample NumR O a' d' v so sf os fs ns.
Proof. intros O. exact deterministic. Qed.

(* the literal shape test accepts exactly (N,M,3,3) with (N,M) ... *)
Theorem C15_validation_spec :
  forall so sf, shape_bad so sf = false <-> exists N M, so = [N; M; 3; 3]%nat /\ sf = [N; M].
Proof. exact validation_spec. Qed.

(* ... and everything else is rejected with ValueError before any work is done *)
Theorem C15_rejects_malformed :
  forall O argsort draw v so sf (os : list (list O)) (fs : list (list R)) ns,
  ~ (exists N M, so = [N; M; 3; 3]%nat /\ sf = [N; M]) ->
  @resample NumR O argsort draw v so sf os fs ns = Err ValueError.
Proof. intros O argsort draw. exact (rejects_malformed argsort draw). Qed.

Theorem C15_rejects_negative_samples :
  forall O argsort draw v so sf (os : list (list O)) (fs : list (list R)) z,
  (z < 0)%Z -> @resample NumR O argsort draw v so sf os fs (Some z) = Err ValueError.
Proof. intros O argsort draw. exact (rejects_negative_samples argsort draw). Qed.

(* ---- mutations decided by theorems -------------------------------------------- *)
(* searchsorted(..., side="right") does NOT break the property: the interval is
   [psum k, psum (k+1)) -- same length -- membership and shapes hold (theorems above are
   stated for either side), and empty grains cannot be drawn even at u = 0 *)
Theorem C15_side_right_interval :
  forall (fa c : list R) k u,
  Forall (fun x => 0 <= x) fa -> lsum fa = 1 -> @pin_last NumR (@cumsum NumR fa) = Ok c ->
  (k < length fa)%nat -> 0 <= u ->
  (@searchsorted NumR true c u = k <-> psum fa k <= u < psum fa (S k))
  /\ psum fa (S k) - psum fa k = nth k fa 0.
Proof. exact draw_interval_right. Qed.

Theorem C15_side_right_zero_volume_never :
  forall O argsort draw so sf (os : list (list O)) (fs : list (list R)) ns oo ff,
  @resample NumR O argsort draw (mk_variant true 0 true) so sf os fs ns = Ok (oo, ff) ->
  argsort_perm argsort -> draw_ok draw ->
  Forall (fun f => Forall (fun x => 0 <= x) f /\ lsum f = 1) fs ->
  Forall (fun row => Forall (fun x => 0 < x) row) ff.
Proof. intros O argsort draw. exact (zero_volume_never_right argsort draw). Qed.

(* count_less + 1 breaks it: a valid input (two grains of volume 1/2, u = 3/4) raises *)
Theorem C15_count_less_plus_one_refuted :
  @resample_one NumR nat (mk_variant false 1 true) [7; 8]%nat [1/2; 1/2] [0; 1]%nat [3/4] = Err IndexError.
Proof. exact shift_plus_witness. Qed.

(* count_less - 1 breaks it: the empty grain 7 is drawn with u = 1/2 > 0 *)
Theorem C15_count_less_minus_one_refuted :
  @resample_one NumR nat (mk_variant false (-1) true) [7; 8]%nat [0; 1] [0; 1]%nat [1/2; 0]
  = Ok ([7; 8]%nat, [0; 1 + 0 - 0]).
Proof. exact shift_minus_witness. Qed.

(* orient[count_less] (orientations not permuted by the sort) breaks the pairing:
   grains (7, 3/4), (8, 1/4); the draw returns (8, 3/4), which is no input grain *)
Theorem C15_unpermuted_orientations_refuted :
  @resample_one NumR nat (mk_variant false 0 false) [7; 8]%nat [3/4; 1/4] [1; 0]%nat [1/2]
  = Ok ([8%nat], [3/4]) /\
  ~ (exists j, nth_error [7; 8]%nat j = Some 8%nat /\ nth_error [3/4; 1/4] j = Some (3/4)).
Proof. exact unpermuted_witness. Qed.

(* non-vacuity: the hypotheses are satisfiable together *)
Example C15_nonvacuous :
  let argsort := fun (_ : nat) (f : list R) => seq 0 (length f) in
  let draw := fun (_ n : nat) => repeat (1 / 2) n in
  argsort_perm argsort /\ draw_ok draw /\ draw_pos draw /\
  @data_ok nat [1; 2; 3; 3]%nat [1; 2]%nat [[7; 8]%nat] [[1/4; 3/4]] /\
  (Forall (fun x => 0 <= x) [1/4; 3/4] /\ lsum [1/4; 3/4] = 1).
Proof. exact C15_nonvacuous_proof. Qed.

(* ---- which variates can draw an empty grain; batch = map of the single call ------ *)
(* Without assuming that the variates are positive: a volume <= 0 in the output of snapshot i
   at sample s is possible ONLY when the s-th variate of the i-th draw is exactly 0.  The
   probability of the violation is therefore exactly the probability that the generator
   returns 0.0 (2^-53 per draw for binary64 variates, 2^-24 for binary32 variates). *)
Theorem C15_zero_volume_only_at_u0 :
  forall O argsort draw so sf (os : list (list O)) (fs : list (list R)) ns oo ff,
  @resample NumR O argsort draw faithful so sf os fs ns = Ok (oo, ff) ->
  argsort_perm argsort -> draw_ok draw ->
  Forall (fun f => Forall (fun x => 0 <= x) f /\ lsum f = 1) fs ->
  forall i s frow x, nth_error ff i = Some frow -> nth_error frow s = Some x -> x <= 0 ->
    nth_error (draw i (n_of sf ns)) s = Some 0.
Proof. intros O argsort draw. exact (zero_volume_only_at_u0 argsort draw). Qed.

(* ... and conversely (general form of the u = 0 witness): if the sort is ascending (first
   entry of the sorted volumes = their minimum) and the snapshot has a zero-volume grain, a
   variate that is exactly 0 DOES draw a grain of volume 0 *)
Theorem C15_u0_draws_zero_volume_grain :
  forall O (orient : list O) (f : list R) pi us os' fs' fa s,
  @resample_one NumR O faithful orient f pi us = Ok (os', fs') ->
  is_perm (length f) pi -> Forall (fun x => 0 <= x) f ->
  gather f pi = Ok fa -> Forall (fun y => nth 0 fa 0 <= y) fa -> In 0 f ->
  nth_error us s = Some 0 -> nth_error fs' s = Some 0.
Proof. intros O. exact resample_one_u0_draws_empty. Qed.

(* row i of a stack call is the one-snapshot computation on snapshot i alone, with the i-th
   sort permutation and the i-th draw: no data of another snapshot or an earlier call enters *)
Theorem C15_batch_rowwise :
  forall O argsort draw v so sf (os : list (list O)) (fs : list (list R)) ns oo ff,
  @resample NumR O argsort draw v so sf os fs ns = Ok (oo, ff) ->
  forall i orow frow, nth_error oo i = Some orow -> nth_error ff i = Some frow ->
  exists o f, nth_error os i = Some o /\ nth_error fs i = Some f /\
    @resample_one NumR O v o f (argsort i f) (draw i (n_of sf ns)) = Ok (orow, frow).
Proof. intros O argsort draw. exact (batch_rowwise argsort draw). Qed.

(* the stack call is the map of the single call: the function applied to the one-snapshot
   stack [snapshot i], generator advanced to its i-th draw, returns exactly row i *)
Theorem C15_batch_is_map_of_single :
  forall O argsort draw v N M (os : list (list O)) (fs : list (list R)) ns oo ff,
  @resample NumR O argsort draw v [N; M; 3; 3]%nat [N; M] os fs ns = Ok (oo, ff) ->
  forall i o f, nth_error os i = Some o -> nth_error fs i = Some f ->
  exists orow frow, nth_error oo i = Some orow /\ nth_error ff i = Some frow /\
    @resample NumR O (fun j => argsort (i + j)%nat) (fun j => draw (i + j)%nat) v
              [1; M; 3; 3]%nat [1; M]%nat [o] [f] ns = Ok ([orow], [frow]).
Proof. intros O argsort draw. exact (batch_is_map_of_single argsort draw). Qed.

(* non-vacuity of C15_u0_draws_zero_volume_grain: its hypotheses hold together on a concrete
   snapshot (ascending sort, one empty grain, variates 0 and 1/2) *)
Example C15_u0_nonvacuous :
  @resample_one NumR nat faithful [7; 8; 9]%nat [1/2; 0; 1/2] [1; 0; 2]%nat [0; 1/2]
    = Ok ([8; 7]%nat, [0; 1/2]) /\
  is_perm 3 [1; 0; 2]%nat /\ Forall (fun x => 0 <= x) [1/2; 0; 1/2] /\ lsum [1/2; 0; 1/2] = 1 /\
  gather [1/2; 0; 1/2] [1; 0; 2]%nat = Ok [0; 1/2; 1/2] /\
  Forall (fun y => nth 0 [0; 1/2; 1/2] 0 <= y) [0; 1/2; 1/2] /\ In 0 [1/2; 0; 1/2].
Proof. exact u0_hypotheses_satisfiable. Qed.

(* ================================================================================================ *)
(* TIE T: statements about the code REGENERATED from pydrex/stats.py on every run (gen/Gen_stats.v). *)
(* `generated N M ns n g` enumerates the 15 definitions traced from the public function             *)
(* resample_orientations (N x M = 1x1, 1x2, 1x3, 2x2; n_samples = 1..3 or omitted; np.argsort and    *)
(* Generator.random are oracles: one permutation code per snapshot, an N x n array of variates);     *)
(* `validated ro rf k` the 24 traces of its shape test on symbolic dimensions.  Arrays are flat      *)
(* (`A l` = `mk_arr 0 l`), `grains` / `rows` are their nested views.                                 *)
(* ================================================================================================ *)

(* every generated definition IS the hand-written model (all inputs, all sort permutations) *)
Theorem C15_generated_is_model :
  forall N M ns n g, generated N M ns n g ->
  forall pis o f u, flat_ok N M n pis o f u -> g pis o f u = pack (model N M ns n pis o f u).
Proof. exact generated_is_model. Qed.

(* the generated shape test is Model_stats.shape_bad, for all dimensions and all ranks 0..5 / 0..3 *)
Theorem C15_generated_validation_is_model :
  forall ro rf k, validated ro rf k ->
  forall so sf, length so = ro -> length sf = rf -> k so sf = validate_model so sf.
Proof. exact validated_is_model. Qed.

(* ... hence it lets exactly (N, M, 3, 3) / (N, M) through and raises ValueError otherwise, before
   the generator is created (`Ok 0` = np.random.default_rng was reached) *)
Theorem C15_generated_validation_spec :
  forall ro rf k, validated ro rf k ->
  forall so sf, length so = ro -> length sf = rf ->
  (k so sf = Ok 0 <-> exists N M, so = [N; M; 3; 3]%nat /\ sf = [N; M]) /\
  (k so sf = Ok 0 \/ k so sf = Err ValueError).
Proof. exact validated_spec. Qed.

Theorem C15_generated_negative_samples :
  forall o f : list R, length o = 18%nat -> length f = 2%nat ->
  @k_resample_N1_M2_neg NumR (A o) (A f) = Err ValueError.
Proof. exact generated_negative_samples. Qed.

(* pairing, on generated code: every returned (orientation, volume) is a grain of the same snapshot *)
Theorem C15_generated_membership :
  forall N M ns n g, generated N M ns n g ->
  forall pis o f u ao af, flat_ok N M n pis o f u -> g pis o f u = Ok (ao, af) ->
  exists oo ff, ao = A (concat (concat oo)) /\ af = A (concat ff) /\
  forall i s orow frow ori x,
    nth_error oo i = Some orow -> nth_error ff i = Some frow ->
    nth_error orow s = Some ori -> nth_error frow s = Some x ->
    exists osnap fsnap j, nth_error (grains N M o) i = Some osnap /\ nth_error (rows N M f) i = Some fsnap /\
      nth_error osnap j = Some ori /\ nth_error fsnap j = Some x.
Proof. exact generated_membership. Qed.

(* zero-volume grains are never drawn, on generated code (variates in (0,1)) *)
Theorem C15_generated_zero_volume_never :
  forall N M ns n g, generated N M ns n g ->
  forall pis o f u ao af, flat_ok N M n pis o f u -> g pis o f u = Ok (ao, af) ->
  Forall (fun x => 0 < x < 1) u ->
  Forall (fun r => Forall (fun x => 0 <= x) r /\ lsum r = 1) (rows N M f) ->
  forall k, (k < N * n)%nat -> 0 < af k.
Proof. exact generated_zero_volume_never. Qed.

(* ... and with variates in [0,1): a volume <= 0 is returned only for a variate that is exactly 0 *)
Theorem C15_generated_zero_volume_only_at_u0 :
  forall N M ns n g, generated N M ns n g ->
  forall pis o f u ao af, flat_ok N M n pis o f u -> g pis o f u = Ok (ao, af) ->
  Forall (fun x => 0 <= x < 1) u ->
  Forall (fun r => Forall (fun x => 0 <= x) r /\ lsum r = 1) (rows N M f) ->
  exists oo ff, ao = A (concat (concat oo)) /\ af = A (concat ff) /\
  forall i s frow x, nth_error ff i = Some frow -> nth_error frow s = Some x -> x <= 0 ->
    exists urow, nth_error (rows N n u) i = Some urow /\ nth_error urow s = Some 0.
Proof. exact generated_zero_volume_only_at_u0. Qed.

(* probability = volume, on generated code: with fa / oa the volumes / orientations of snapshot i in
   sort order, a variate 0 < u_s in the cumulative interval (psum fa k, psum fa (k+1)] -- of length
   fa_k -- returns exactly grain k (its volume and its orientation) *)
Theorem C15_generated_draw_interval :
  forall N M ns n g, generated N M ns n g ->
  forall pis o f u ao af, flat_ok N M n pis o f u -> g pis o f u = Ok (ao, af) ->
  Forall (fun r => Forall (fun x => 0 <= x) r /\ lsum r = 1) (rows N M f) ->
  exists oo ff, ao = A (concat (concat oo)) /\ af = A (concat ff) /\
  forall i orow frow, nth_error oo i = Some orow -> nth_error ff i = Some frow ->
  exists osnap fsnap pi urow fa oa,
    nth_error (grains N M o) i = Some osnap /\ nth_error (rows N M f) i = Some fsnap /\
    nth_error pis i = Some pi /\ nth_error (rows N n u) i = Some urow /\
    gather fsnap pi = Ok fa /\ gather osnap pi = Ok oa /\ Permutation fa fsnap /\
    forall s us k, nth_error urow s = Some us -> 0 < us -> (k < length fa)%nat ->
      psum fa k < us <= psum fa (S k) ->
      nth_error frow s = Some (nth k fa 0) /\ nth_error orow s = nth_error oa k /\
      psum fa (S k) - psum fa k = nth k fa 0.
Proof. exact generated_draw_interval. Qed.

(* non-vacuity: a member of the family, arguments satisfying every hypothesis used above, and the
   value the generated code returns on them (grains (1..9, 3/4), (11..19, 1/4); sort order [1; 0];
   variates 1/2, 1/8) *)
Example C15_generated_nonvacuous :
  let pis := [[1; 0]%nat] in let f := [3/4; 1/4] in let u := [1/2; 1/8] in
  generated 1 2 (Some 2%Z) 2
    (fun pis o f u => @k_resample_N1_M2_n2 NumR (A o) (A f) (A u) (perm_code (nth 0 pis []))) /\
  flat_ok 1 2 2 pis ex_o f u /\
  Forall (fun x => 0 < x < 1) u /\
  Forall (fun r => Forall (fun x => 0 <= x) r /\ lsum r = 1) (rows 1 2 f) /\
  @k_resample_N1_M2_n2 NumR (A ex_o) (A f) (A u) (perm_code (nth 0 pis []))
    = Ok (A (map IZR [1;2;3;4;5;6;7;8;9; 11;12;13;14;15;16;17;18;19]%Z), A [3/4; 1/4]).
Proof. exact generated_nonvacuous. Qed.

(* ================================================================================================ *)
(* CALL HISTORIES (Model_stats_session.v): live orientation / volume objects that the caller modifies *)
(* in place between calls (refill, set one entry, rescale, reorder grains); a call names two objects,  *)
(* n_samples and a seed.  `run false` is the source as it is, `run true` a variant that remembers the  *)
(* last seeded result per (object identities, shape, n_samples, seed).  ORACLES per call k: argsort k, *)
(* draw k (the generator created by call k).                                                          *)
(* ================================================================================================ *)

(* in ANY history every call of the source is the one-call function Model_stats.resample of what its
   two argument objects contain at the time of the call, of n_samples and of that call's generator --
   whatever the memo slot holds, whatever was called before *)
Theorem C15_session_calls_are_pure :
  forall O argsort draw (h : list (@sop NumR O)) st k m,
  @run NumR O argsort draw false (st, k, m) h = map (@out_of_ctx NumR O argsort draw) (@contexts NumR O st k h).
Proof. intros O argsort draw. exact (session_calls_are_pure argsort draw). Qed.

(* pairing over histories: whatever any call of any history returns is a grain of the same snapshot of
   its arguments AS THEY ARE at the time of that call *)
Theorem C15_session_membership :
  forall O argsort draw (h : list (@sop NumR O)) st k m,
  Forall2 (fun (c : @call_ctx NumR O) out =>
             forall oo ff, out = Ok (oo, ff) ->
             forall i s orow frow o x,
               nth_error oo i = Some orow -> nth_error ff i = Some frow ->
               nth_error orow s = Some o -> nth_error frow s = Some x ->
               exists osnap fsnap j,
                 nth_error (snd (snd (fst (fst (fst c))))) i = Some osnap /\
                 nth_error (snd (snd (fst (fst c)))) i = Some fsnap /\
                 nth_error osnap j = Some o /\ nth_error fsnap j = Some x)
          (@contexts NumR O st k h) (@run NumR O argsort draw false (st, k, m) h).
Proof. intros O argsort draw. exact (session_membership argsort draw). Qed.

(* zero-volume grains over histories: volumes that are non-negative and sum to 1 at the time of a call
   and variates in (0,1) give positive returned volumes in that call -- whatever the objects held before *)
Theorem C15_session_zero_volume_never :
  forall O argsort draw (h : list (@sop NumR O)) st k m,
  (forall kk i f, is_perm (length f) (argsort kk i f)) ->
  (forall kk i n, length (draw kk i n) = n /\ Forall (fun u => 0 < u < 1) (draw kk i n)) ->
  Forall2 (fun (c : @call_ctx NumR O) out =>
             forall oo ff, out = Ok (oo, ff) ->
             Forall (fun f => Forall (fun x => 0 <= x) f /\ lsum f = 1) (snd (snd (fst (fst c)))) ->
             Forall (fun row => Forall (fun x => 0 < x) row) ff)
          (@contexts NumR O st k h) (@run NumR O argsort draw false (st, k, m) h).
Proof. intros O argsort draw. exact (session_zero_volume_never argsort draw). Qed.

(* two calls -- anywhere in their histories, on whichever objects -- whose arguments have equal shapes and
   contents, equal n_samples, the same sort and the same generator stream (same seed) return the same *)
Theorem C15_session_same_call :
  forall O argsort draw (c c' : @call_ctx NumR O),
  snd (fst (fst (fst c))) = snd (fst (fst (fst c'))) ->
  snd (fst (fst c)) = snd (fst (fst c')) ->
  snd (fst c) = snd (fst c') ->
  (forall i f, argsort (fst (fst (fst (fst c)))) i f = argsort (fst (fst (fst (fst c')))) i f) ->
  (forall i n, draw (fst (fst (fst (fst c)))) i n = draw (fst (fst (fst (fst c')))) i n) ->
  @out_of_ctx NumR O argsort draw c = @out_of_ctx NumR O argsort draw c'.
Proof. intros O argsort draw. exact (session_same_call argsort draw). Qed.

(* the memoising variant is refuted: grains (7, 1), (8, 0); resample (seed 5, one sample, variate 1/2);
   overwrite the volumes in place with (0, 1); resample the same objects with the same seed.  The source
   returns (8, 1); the variant hands back (7, 1), which is no grain of the snapshot it was called on *)
Theorem C15_session_memo_refuted :
  @run NumR nat ex_argsort ex_draw true (ex_store, 0%nat, None) ex_history
    = [Ok ([[7%nat]], [[1]]); Ok ([[7%nat]], [[1]])] /\
  @run NumR nat ex_argsort ex_draw false (ex_store, 0%nat, None) ex_history
    = [Ok ([[7%nat]], [[1]]); Ok ([[8%nat]], [[1]])] /\
  @pure_run NumR nat ex_argsort ex_draw ex_store 0 ex_history
    = [Ok ([[7%nat]], [[1]]); Ok ([[8%nat]], [[1]])] /\
  snd (@fget NumR nat (store_after ex_store ex_history) 0) = [[0; 1]] /\
  ~ (exists j, nth_error [7; 8]%nat j = Some 7%nat /\ nth_error [0; 1] j = Some 1).
Proof. exact memo_refuted. Qed.

Example C15_session_nonvacuous :
  (forall kk i f, (length f = 2)%nat -> is_perm (length f) (ex_argsort kk i f)) /\
  (forall kk i n, length (ex_draw kk i n) = n /\ Forall (fun u => 0 < u < 1) (ex_draw kk i n)) /\
  @contexts NumR nat ex_store 0 ex_history
    = [(0%nat, ([1; 2; 3; 3]%nat, [[7; 8]%nat]), ([1; 2]%nat, [[1; 0]]), Some 1%Z, Some 5%Z);
       (1%nat, ([1; 2; 3; 3]%nat, [[7; 8]%nat]), ([1; 2]%nat, [[0; 1]]), Some 1%Z, Some 5%Z)].
Proof. exact session_nonvacuous. Qed.
