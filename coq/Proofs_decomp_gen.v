(* Proofs_decomp_gen.v -- C12 on the GENERATED code: the theorems proved about the hand-written model
   Model_decomp.elasticity_components1 are carried over, through the kernel-checked instance lemmas of
   Inst_decomp*.v, to Gen_decomp.k_ec_row / k_elasticity_components_n{1,2}, the definitions the translator
   regenerates from pydrex.diagnostics.elasticity_components on every run.  The eigh ORACLE is a function
   parameter: the hypotheses are about its results on the two matrices the GENERATED term applies it to. *)
From Coq Require Import Reals ZArith List Bool Lra Lia.
From PV Require Import Num NumR Model_voigt Model_decomp Proofs_tensors_alg Proofs_tensors_rot
  Proofs_tensors_maps Proofs_tensors_proj Inst_tensors Proofs_decomp Proofs_decomp2 Proofs_decomp3
  Proofs_decomp4 Proofs_decomp5 Model_decomp_series Inst_decomp_base Inst_decomp_seg0 Inst_decomp_seg1 Inst_decomp_seg2 Inst_decomp.
From PV.gen Require Import Gen_tensors Gen_decomp.
Import ListNotations.
Open Scope R_scope.

Definition oracle := arr NumR -> arr NumR * arr NumR.
(* the eigenvector matrices the generated row uses for matrix M *)
Definition gen_Ed (eigh : oracle) (M : arr NumR) : arr NumR := fst (row_eigs eigh M).
Definition gen_Ev (eigh : oracle) (M : arr NumR) : arr NumR := snd (row_eigs eigh M).

Lemma gen_Ed_eq eigh M :
  gen_Ed eigh M = snd (eigh (fst (@k_voigt_decompose NumR (@k_upper_tri_to_symmetric_6 NumR M)))).
Proof. unfold gen_Ed, row_eigs. destruct (@k_voigt_decompose NumR _); reflexivity. Qed.
Lemma gen_Ev_eq eigh M :
  gen_Ev eigh M = snd (eigh (snd (@k_voigt_decompose NumR (@k_upper_tri_to_symmetric_6 NumR M)))).
Proof. unfold gen_Ev, row_eigs. destruct (@k_voigt_decompose NumR _); reflexivity. Qed.

(* the three pairing-loop iterations at once *)
Lemma pairing_inst (Ed Ev : arr NumR) :
  @k_ec_sccs_col_0 NumR Ed Ev = (if @sccs_raises NumR Ed Ev 0 then Err DivZero else Ok (@sccs_col NumR Ed Ev 0)) /\
  @k_ec_sccs_col_1 NumR Ed Ev = (if @sccs_raises NumR Ed Ev 1 then Err DivZero else Ok (@sccs_col NumR Ed Ev 1)) /\
  @k_ec_sccs_col_2 NumR Ed Ev = (if @sccs_raises NumR Ed Ev 2 then Err DivZero else Ok (@sccs_col NumR Ed Ev 2)).
Proof. repeat split; [apply sccs_col_inst_0 | apply sccs_col_inst_1 | apply sccs_col_inst_2]. Qed.

(* orthonormal columns are not zero: smallest_angle does not raise *)
Lemma orth_col_norm (E : arr NumR) a : orth (mat3 E) -> (a < 3)%nat -> @norm3 NumR (col E a) = 1.
Proof.
  intros H Ha. specialize (H a a Ha Ha). rewrite Nat.eqb_refl in H.
  unfold sum3, mat3 in H. cbv [norm3 dot3 col mk_arr nth]. numR.
  assert (HH : E a * E a + E (3 + a)%nat * E (3 + a)%nat + E (6 + a)%nat * E (6 + a)%nat = 1).
  { rewrite <- H. replace (3 * 0 + a)%nat with a by lia. replace (3 * 1 + a)%nat with (3 + a)%nat by lia.
    replace (3 * 2 + a)%nat with (6 + a)%nat by lia. reflexivity. }
  rewrite HH. apply sqrt_1.
Qed.

Lemma orth_no_raise (Ed Ev : arr NumR) : orth (mat3 Ed) -> orth (mat3 Ev) -> @angle_raises NumR Ed Ev = false.
Proof.
  intros Hd Hv. unfold angle_raises, sccs_raises, angle_raises1.
  rewrite !(orth_col_norm Ed) by (assumption || lia). rewrite !(orth_col_norm Ev) by (assumption || lia).
  numR. replace (Reqb (1 * 1) 0) with false; [reflexivity|].
  symmetry. apply Reqb_false. lra.
Qed.

(* what an initialised row of the generated code is *)
Lemma row_ok_inv (eigh : oracle) (M f r : arr NumR) :
  orth (mat3 (gen_Ed eigh M)) -> orth (mat3 (gen_Ev eigh M)) ->
  @k_ec_row NumR eigh M = Ok (f, r) -> f 0%nat = 1 ->
  exists out, @elasticity_components1 NumR M (gen_Ed eigh M) (gen_Ev eigh M) = Ok out /\
              forall n, r n = nth n out 0.
Proof.
  intros Hd Hv Hrow Hf. rewrite ec_row_inst in Hrow. unfold elasticity_components1_chk in Hrow.
  fold (gen_Ed eigh M) in Hrow. fold (gen_Ev eigh M) in Hrow.
  rewrite (orth_no_raise _ _ Hd Hv) in Hrow.
  destruct (@elasticity_components1 NumR M (gen_Ed eigh M) (gen_Ev eigh M)) as [out|e].
  - exists out. split; [reflexivity|]. cbv [enc_row] in Hrow. inversion Hrow; subst. reflexivity.
  - exfalso. destruct e; cbv [enc_row] in Hrow; try discriminate Hrow.
    inversion Hrow; subst. cbv [mk_arr nth] in Hf. lra.
Qed.

Section Transfer.
  Variables (eigh : oracle) (M0 M Rq : arr NumR) (mud0 muv0 mud muv : nat -> R).
  Variables (f0 r0 f r : arr NumR).
  Let vm0 := @k_upper_tri_to_symmetric_6 NumR M0.
  Let vm := @k_upper_tri_to_symmetric_6 NumR M.
  Let T0 := t4 (@k_voigt_to_elastic_tensor NumR vm0).
  Let Ed0 := snd (eigh (fst (@k_voigt_decompose NumR vm0))).
  Let Ev0 := snd (eigh (snd (@k_voigt_decompose NumR vm0))).
  Let Ed := snd (eigh (fst (@k_voigt_decompose NumR vm))).
  Let Ev := snd (eigh (snd (@k_voigt_decompose NumR vm))).

  Hypothesis Hs0 : sym6 vm0.
  Hypothesis Ho : ortho4 T0.
  Hypothesis Hdd : distinct3 (fun k => dil4 T0 k k).
  Hypothesis Hdv : distinct3 (fun k => dev4 T0 k k).
  Hypothesis HEd0 : orth (mat3 Ed0).
  Hypothesis HEd0e : eigcols (mat3 (fst (@k_voigt_decompose NumR vm0))) (mat3 Ed0) mud0.
  Hypothesis HEv0 : orth (mat3 Ev0).
  Hypothesis HEv0e : eigcols (mat3 (snd (@k_voigt_decompose NumR vm0))) (mat3 Ev0) muv0.
  Hypothesis Hrow0 : @k_ec_row NumR eigh M0 = Ok (f0, r0).
  Hypothesis Hf0 : f0 0%nat = 1.
  Hypothesis Hs : sym6 vm.
  Hypothesis HR : orth (mat3 Rq).
  Hypothesis Hrot : eq4b (t4 (@k_voigt_to_elastic_tensor NumR vm)) (rot4 T0 (mat3 Rq)).
  Hypothesis HEd : orth (mat3 Ed).
  Hypothesis HEde : eigcols (mat3 (fst (@k_voigt_decompose NumR vm))) (mat3 Ed) mud.
  Hypothesis HEv : orth (mat3 Ev).
  Hypothesis HEve : eigcols (mat3 (snd (@k_voigt_decompose NumR vm))) (mat3 Ev) muv.
  Hypothesis Hrow : @k_ec_row NumR eigh M = Ok (f, r).
  Hypothesis Hf : f 0%nat = 1.

  Lemma tr_outs : exists out0 out,
    @elasticity_components1 NumR M0 Ed0 Ev0 = Ok out0 /\ (forall n, r0 n = nth n out0 0) /\
    @elasticity_components1 NumR M Ed Ev = Ok out /\ (forall n, r n = nth n out 0).
  Proof.
    destruct (row_ok_inv eigh M0 f0 r0) as (out0 & E0 & N0); try assumption;
      rewrite ?gen_Ed_eq, ?gen_Ev_eq; try assumption.
    destruct (row_ok_inv eigh M f r) as (out & E1 & N1); try assumption;
      rewrite ?gen_Ed_eq, ?gen_Ev_eq; try assumption.
    rewrite gen_Ed_eq, gen_Ev_eq in E0, E1. exists out0, out. repeat split; assumption.
  Qed.

  Lemma gen_outputs_frame_invariant_proof :
    (exists kst, strict_min3 (hex_dist T0) kst) ->
    forall n, (n < 8)%nat -> r n = r0 n.
  Proof.
    intros Hmin n Hn. destruct tr_outs as (out0 & out & E0 & N0 & E1 & N1). rewrite N0, N1.
    eapply (ec1_outputs_frame_invariant M0 Ed0 Ev0 M Ed Ev Rq mud0 muv0 mud muv out0 out); eassumption.
  Qed.

  Lemma gen_hex_axis_corotates_proof :
    (exists kst, strict_min3 (hex_dist T0) kst) ->
    exists sgn, pm1 sgn /\
      forall a, (a < 3)%nat -> r (8 + a)%nat = sgn * sum3 (fun b => mat3 Rq a b * r0 (8 + b)%nat).
  Proof.
    intros Hmin. destruct tr_outs as (out0 & out & E0 & N0 & E1 & N1).
    destruct (ec1_hex_axis_corotates M0 Ed0 Ev0 M Ed Ev Rq mud0 muv0 mud muv out0 out) as (sgn & Hs1 & Hax);
      try eassumption.
    exists sgn. split; [assumption|]. intros a Ha. rewrite N1. etransitivity; [exact (Hax a Ha)|]. f_equal.
    unfold sum3. rewrite !N0. reflexivity.
  Qed.
End Transfer.

Lemma gen_ortho_sum_rule_proof (eigh : oracle) (M Rq : arr NumR) (T0 : T4) (mud muv : nat -> R) (f r : arr NumR) :
  let vm := @k_upper_tri_to_symmetric_6 NumR M in
  let Ed := snd (eigh (fst (@k_voigt_decompose NumR vm))) in
  let Ev := snd (eigh (snd (@k_voigt_decompose NumR vm))) in
  sym6 vm -> ortho4 T0 -> orth (mat3 Rq) ->
  eq4b (t4 (@k_voigt_to_elastic_tensor NumR vm)) (rot4 T0 (mat3 Rq)) ->
  distinct3 (fun k => dil4 T0 k k) -> distinct3 (fun k => dev4 T0 k k) ->
  orth (mat3 Ed) -> eigcols (mat3 (fst (@k_voigt_decompose NumR vm))) (mat3 Ed) mud ->
  orth (mat3 Ev) -> eigcols (mat3 (snd (@k_voigt_decompose NumR vm))) (mat3 Ev) muv ->
  @k_ec_row NumR eigh M = Ok (f, r) -> f 0%nat = 1 ->
  r 3%nat * r 3%nat + r 4%nat * r 4%nat + r 5%nat * r 5%nat + r 6%nat * r 6%nat + r 7%nat * r 7%nat
  = r 2%nat * r 2%nat.
Proof.
  intros vm Ed Ev Hs Ho HR Hrot Hdd Hdv HEd HEde HEv HEve Hrow Hf.
  destruct (row_ok_inv eigh M f r) as (out & E1 & N1); rewrite ?gen_Ed_eq, ?gen_Ev_eq; try assumption.
  rewrite gen_Ed_eq, gen_Ev_eq in E1. rewrite !N1.
  eapply (ec1_ortho_sum_rule M Ed Ev Rq T0 mud muv out); eassumption.
Qed.

(* C12 for general tensors (Proofs_decomp5.ec1_general_frame_independent) on the generated row: if the row of the
   tensor in its original frame is initialised, so is the row in the new frame, with the same eight numbers and the
   co-rotated axis *)
Lemma gen_general_frame_independent_proof (eigh : oracle) (M0 M Rq : arr NumR) (mud muv : nat -> R) (f0 r0 : arr NumR) :
  let vm0 := @k_upper_tri_to_symmetric_6 NumR M0 in
  let vm := @k_upper_tri_to_symmetric_6 NumR M in
  let Ed0 := snd (eigh (fst (@k_voigt_decompose NumR vm0))) in
  let Ev0 := snd (eigh (snd (@k_voigt_decompose NumR vm0))) in
  let Ed := snd (eigh (fst (@k_voigt_decompose NumR vm))) in
  let Ev := snd (eigh (snd (@k_voigt_decompose NumR vm))) in
  sym6 vm0 -> sym6 vm -> orth (mat3 Rq) ->
  eq4b (t4 (@k_voigt_to_elastic_tensor NumR vm)) (rot4 (t4 (@k_voigt_to_elastic_tensor NumR vm0)) (mat3 Rq)) ->
  distinct3 mud -> distinct3 muv ->
  orth (mat3 Ed0) -> eigcols (mat3 (fst (@k_voigt_decompose NumR vm0))) (mat3 Ed0) mud ->
  orth (mat3 Ev0) -> eigcols (mat3 (snd (@k_voigt_decompose NumR vm0))) (mat3 Ev0) muv ->
  orth (mat3 Ed) -> eigcols (mat3 (fst (@k_voigt_decompose NumR vm))) (mat3 Ed) mud ->
  orth (mat3 Ev) -> eigcols (mat3 (snd (@k_voigt_decompose NumR vm))) (mat3 Ev) muv ->
  @k_ec_row NumR eigh M0 = Ok (f0, r0) -> f0 0%nat = 1 ->
  exists f r, @k_ec_row NumR eigh M = Ok (f, r) /\ f 0%nat = 1 /\
    (forall n, (n < 8)%nat -> r n = r0 n) /\
    exists sgn, pm1 sgn /\
      forall a, (a < 3)%nat -> r (8 + a)%nat = sgn * sum3 (fun b => mat3 Rq a b * r0 (8 + b)%nat).
Proof.
  intros vm0 vm Ed0 Ev0 Ed Ev Hs0 Hs HR HT Hdd Hdv HEd0 HEd0e HEv0 HEv0e HEd HEde HEv HEve Hrow0 Hf0.
  destruct (row_ok_inv eigh M0 f0 r0) as (out0 & E0 & N0); rewrite ?gen_Ed_eq, ?gen_Ev_eq; try assumption.
  rewrite gen_Ed_eq, gen_Ev_eq in E0.
  destruct (ec1_general_frame_independent M0 Ed0 Ev0 M Ed Ev Rq mud muv Hs0 Hs HR HT Hdd Hdv
              HEd0 HEd0e HEv0 HEv0e HEd HEde HEv HEve out0 E0) as (out & E1 & H8 & sgn & Hp & Hax).
  exists (mk_arr 0 [1]), (mk_arr 0 out).
  split.
  { rewrite ec_row_inst. fold (gen_Ed eigh M). fold (gen_Ev eigh M). rewrite gen_Ed_eq, gen_Ev_eq.
    unfold elasticity_components1_chk. fold vm. fold Ed. fold Ev.
    rewrite (orth_no_raise _ _ HEd HEv), E1. reflexivity. }
  split; [reflexivity|]. split.
  { intros n Hn. rewrite N0. apply H8, Hn. }
  exists sgn. split; [assumption|]. intros a Ha. etransitivity; [exact (Hax a Ha)|]. f_equal.
  unfold sum3. rewrite !N0. reflexivity.
Qed.

(* a batch of two is the two rows side by side; an exception raised for either matrix aborts the call *)
Lemma gen_batch_is_rows_proof (eigh : oracle) (M0 M1 : arr NumR) :
  @k_elasticity_components_n2 NumR eigh M0 M1 =
  match @k_ec_row NumR eigh M0 with
  | Err e => Err e
  | Ok (f0, r0) =>
      match @k_ec_row NumR eigh M1 with
      | Err e => Err e
      | Ok (f1, r1) => Ok (mk_arr 0 [f0 0%nat; f1 0%nat], mk_arr 0 (map r0 (seq 0 11) ++ map r1 (seq 0 11)))
      end
  end.
Proof. reflexivity. Qed.

Lemma gen_single_is_row_proof (eigh : oracle) (M0 : arr NumR) :
  @k_elasticity_components_n1 NumR eigh M0 =
  match @k_ec_row NumR eigh M0 with Err e => Err e | Ok (f0, r0) => Ok (f0, r0) end.
Proof. reflexivity. Qed.

(* non-vacuity: the oracle that answers the identity matrix, on diag(1,2,4,1,1,1) *)
Definition eigh_id : oracle := fun _ => (@mk_arr R 0 [0; 0; 0], @eye3 NumR).

Lemma gen_nonvacuous_proof :
  exists f r, @k_ec_row NumR eigh_id M_ortho_example2 = Ok (f, r) /\ f 0%nat = 1 /\
              orth (mat3 (gen_Ed eigh_id M_ortho_example2)) /\ orth (mat3 (gen_Ev eigh_id M_ortho_example2)).
Proof.
  destruct C12_run_nonvacuous_proof as (mud & muv & out & _ & _ & _ & _ & _ & HI & _ & _ & _ & Hout).
  cbv zeta in HI, Hout.
  assert (Ed : gen_Ed eigh_id M_ortho_example2 = @eye3 NumR) by (rewrite gen_Ed_eq; reflexivity).
  assert (Ev : gen_Ev eigh_id M_ortho_example2 = @eye3 NumR) by (rewrite gen_Ev_eq; reflexivity).
  exists (mk_arr 0 [1]), (mk_arr 0 out). rewrite Ed, Ev. repeat split; try assumption.
  rewrite ec_row_inst. fold (gen_Ed eigh_id M_ortho_example2). fold (gen_Ev eigh_id M_ortho_example2).
  rewrite Ed, Ev. unfold elasticity_components1_chk. rewrite (orth_no_raise _ _ HI HI), Hout. reflexivity.
Qed.
