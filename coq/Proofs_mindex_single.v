(* Proofs_mindex_single.v -- the index of a single-orientation texture (all grains equal):
   every pair misorientation angle is 0 (both quaternion-product variants, every operator
   list that contains the identity), the observed density is the unit mass in bin 0, and
   M = (1 + T) / 2 - th_0  (T = total theoretical mass, th_0 = its first bin). *)
From Coq Require Import Reals ZArith List Bool Lra Lia.
From PV Require Import Num NumR Model_mindex Proofs_mindex.
Import ListNotations.
Open Scope R_scope.

(* ------------------------------------------------------------------------- *)
(* the angle of a unit quaternion with itself                                *)
(* ------------------------------------------------------------------------- *)
Lemma clip1_ge1 x : 1 <= x -> @clip1 NumR x = 1.
Proof.
  intros H. unfold clip1, m1; numR. unfold Rltb.
  destruct (Rlt_dec x (- (1))); [lra|]. destruct (Rlt_dec 1 x); [reflexivity|lra].
Qed.

Lemma ang1_self (q : Q4) : 1 <= qnorm2 q -> @ang1 NumR q q = 0.
Proof.
  intros H. unfold ang1. fold (qnorm2 q). rewrite clip1_ge1 by assumption.
  unfold rad2deg. numR. rewrite Rabs_R1, acos_1. ring.
Qed.

Lemma ang1_nonneg (p q : Q4) : 0 <= @ang1 NumR p q.
Proof.
  unfold ang1, rad2deg. numR.
  match goal with |- context [acos ?x] => pose proof (acos_bound x) as [A _] end.
  pose proof PI_RGT_0 as HP.
  apply Rmult_le_pos; [lra|]. apply Rmult_le_pos; [assumption|].
  unfold Rdiv. apply Rmult_le_pos; [lra|]. left. now apply Rinv_0_lt_compat.
Qed.

(* the identity operator leaves the quaternion unchanged under BOTH product variants *)
Lemma apply_id v (q : Q4) : @apply_op NumR v (Rot qid) q = q.
Proof. dq q. destruct v; cbv [apply_op qprod qid]; numR; split4; ring. Qed.

Lemma qid_in_symops s : In (@Rot NumR qid) (@symmetry_operations NumR s).
Proof. destruct s; left; reflexivity. Qed.

Lemma pair_angle_self v ops (q : Q4) :
  In (@Rot NumR qid) ops -> 1 <= qnorm2 q -> @pair_angle NumR v ops q q = 0.
Proof.
  intros Hid Hq. rewrite pair_angle_values.
  assert (Hne : angle_values v ops q q <> []).
  { apply angle_values_nonempty. intros E. rewrite E in Hid. destruct Hid. }
  destruct (lmin_spec _ Hne) as [A B]. apply Rle_antisym.
  - apply B. apply in_angle_values. exists (@Rot NumR qid), (@Rot NumR qid).
    repeat split; try assumption. rewrite !apply_id. symmetry. now apply ang1_self.
  - apply in_angle_values in A as (s & t & _ & _ & E). rewrite E. apply ang1_nonneg.
Qed.

Lemma pair_angle_self_system v s (q : Q4) : 1 <= qnorm2 q ->
  In (@Rot NumR qid) (@symmetry_operations NumR s) /\
  @apply_op NumR v (Rot qid) q = q /\
  @pair_angle NumR v (symmetry_operations s) q q = 0.
Proof.
  intros H. split; [apply qid_in_symops|]. split; [apply apply_id|].
  apply pair_angle_self; [apply qid_in_symops|assumption].
Qed.

(* ------------------------------------------------------------------------- *)
(* all pairs of a constant list                                              *)
(* ------------------------------------------------------------------------- *)
Lemma Forall_eq_is_repeat {A} (a : A) l : Forall (eq a) l -> l = repeat a (length l).
Proof. induction 1 as [|x l <- _ IH]; cbn [length repeat]; [reflexivity|]. now rewrite <- IH. Qed.

Lemma pairs_repeat_all {A} (a : A) n p : In p (pairs (repeat a n)) -> p = (a, a).
Proof.
  induction n as [|n IH]; cbn [repeat pairs]; [intros []|]. intros H.
  apply in_app_or in H as [H|H]; [|auto].
  apply in_map_iff in H as (b & <- & Hb). apply repeat_spec in Hb. now subst.
Qed.

Lemma pairs_repeat_nonempty {A} (a : A) n : (2 <= n)%nat -> pairs (repeat a n) <> [].
Proof. destruct n as [|[|n]]; [lia|lia|]. intros _. cbn [repeat pairs map app]. discriminate. Qed.

Lemma angles_single v s (q : Q4) n : 1 <= qnorm2 q -> (2 <= n)%nat ->
  Forall (eq 0) (@angles NumR v s (repeat q n)) /\ @angles NumR v s (repeat q n) <> [].
Proof.
  intros Hq Hn. unfold angles. split.
  - apply Forall_forall. intros x Hx. apply in_map_iff in Hx as (p & <- & Hp).
    apply pairs_repeat_all in Hp. subst p. cbn [fst snd]. symmetry.
    apply pair_angle_self; [apply qid_in_symops|assumption].
  - pose proof (pairs_repeat_nonempty q n Hn) as H. destruct (pairs (repeat q n)); [congruence|discriminate].
Qed.

(* ------------------------------------------------------------------------- *)
(* histogram of a non-empty list of zeros: the unit mass in bin 0            *)
(* ------------------------------------------------------------------------- *)
Lemma in_bin_zero n k : (2 <= n)%nat -> @in_bin NumR n k 0 = Nat.eqb k 0.
Proof.
  intros Hn. unfold in_bin. numR. destruct k as [|k].
  - replace (Nat.eqb 1 n) with false by (symmetry; apply Nat.eqb_neq; lia).
    replace (Rleb (IZR (Z.of_nat 0)) 0) with true by (symmetry; apply Rleb_true; cbn; lra).
    replace (Rltb 0 (IZR (Z.of_nat 1))) with true by (symmetry; apply Rltb_true; cbn; lra). reflexivity.
  - replace (Rleb (IZR (Z.of_nat (S k))) 0) with false; [reflexivity|].
    symmetry. apply Rleb_false. apply (IZR_lt 0). lia.
Qed.

Lemma count_bin_zeros n k (angs : list R) : (2 <= n)%nat -> Forall (eq 0) angs ->
  @count_bin NumR n k angs = if Nat.eqb k 0 then Z.of_nat (length angs) else 0%Z.
Proof.
  intros Hn H. unfold count_bin. destruct (Nat.eqb k 0) eqn:E.
  - induction H as [|a l <- _ IH]; cbn [filter length]; [reflexivity|].
    rewrite in_bin_zero, E by assumption. cbn [length]. lia.
  - induction H as [|a l <- _ IH]; cbn [filter length]; [reflexivity|].
    rewrite in_bin_zero, E by assumption. exact IH.
Qed.

Lemma map_seq_const {A} (f : nat -> A) c a n :
  (forall k, (a <= k)%nat -> f k = c) -> map f (seq a n) = repeat c n.
Proof.
  revert a; induction n as [|n IH]; intros a H; cbn [seq map repeat]; [reflexivity|].
  rewrite H by lia. f_equal. apply IH. intros k Hk. apply H. lia.
Qed.

Lemma hist_counts_zeros n (angs : list R) : Forall (eq 0) angs ->
  @hist_counts NumR (S (S n)) angs = Z.of_nat (length angs) :: repeat 0%Z (S n).
Proof.
  intros H. unfold hist_counts. cbn [seq map].
  rewrite !(count_bin_zeros (S (S n)) _ _ ltac:(lia) H). cbn [Nat.eqb repeat]. do 2 f_equal.
  apply map_seq_const. intros k Hk. rewrite (count_bin_zeros (S (S n)) _ _ ltac:(lia) H).
  destruct k; [lia|reflexivity].
Qed.

Lemma zsum_repeat0 n : zsum (repeat 0%Z n) = 0%Z.
Proof. induction n as [|n IH]; cbn [repeat zsum fold_right]; [reflexivity|]. fold (zsum (repeat 0%Z n)). lia. Qed.

Lemma map_repeat' {A B} (f : A -> B) a n : map f (repeat a n) = repeat (f a) n.
Proof. induction n as [|n IH]; cbn [repeat map]; [reflexivity|]. now rewrite IH. Qed.

Lemma hist_density_zeros n (angs : list R) : Forall (eq 0) angs -> angs <> [] ->
  @hist_density NumR (S (S n)) angs = 1 :: repeat 0 (S n).
Proof.
  intros H Hne. unfold hist_density. rewrite hist_counts_zeros by assumption.
  rewrite fold_left_Zadd. cbn [zsum fold_right]. fold (zsum (repeat 0%Z (S n))). rewrite zsum_repeat0.
  replace (0 + (Z.of_nat (length angs) + 0))%Z with (Z.of_nat (length angs)) by lia.
  assert (HL: 0 < IZR (Z.of_nat (length angs))).
  { apply (IZR_lt 0). destruct angs; [congruence|cbn [length]; lia]. }
  cbn [map]. rewrite map_repeat'. numR. f_equal.
  - field. lra.
  - f_equal. field. lra.
Qed.

(* ------------------------------------------------------------------------- *)
(* the index against the unit mass in bin 0                                  *)
(* ------------------------------------------------------------------------- *)
Lemma rsum_absdiff_zeros ts : Forall (Rle 0) ts ->
  rsum (map2 absdiff ts (repeat 0 (length ts))) = rsum ts.
Proof.
  induction 1 as [|t ts Ht _ IH]; cbn [length repeat map2 rsum fold_right]; [reflexivity|].
  fold (rsum (map2 absdiff ts (repeat 0 (length ts)))) (rsum ts). rewrite IH.
  unfold absdiff. rewrite Rminus_0_r, Rabs_pos_eq by assumption. reflexivity.
Qed.

Lemma m_of_unit_mass (t0 : R) ts : t0 <= 1 -> Forall (Rle 0) ts ->
  @m_of NumR (S (length ts)) (t0 :: ts) (1 :: repeat 0 (length ts)) = (1 + rsum (t0 :: ts)) / 2 - t0.
Proof.
  intros H0 Hts. unfold m_of. rewrite msum_R. cbn [length]. rewrite repeat_length.
  numR.
  change (map2 (fun t o : R => Rabs (t - o)) (t0 :: ts) (1 :: repeat 0 (length ts)))
    with (map2 absdiff (t0 :: ts) (1 :: repeat 0 (length ts))).
  cbn [map2 rsum fold_right]. fold (rsum (map2 absdiff ts (repeat 0 (length ts)))) (rsum ts).
  rewrite rsum_absdiff_zeros by assumption. unfold absdiff at 1.
  rewrite Rabs_left1 by lra. rewrite mult_IZR.
  assert (0 < IZR (Z.of_nat (S (length ts)))) by (apply (IZR_lt 0); lia).
  field. lra.
Qed.

Lemma theta_max_ge2 s : exists n, theta_max s = S (S n).
Proof. destruct s; cbn [theta_max]; eexists; reflexivity. Qed.

Lemma theory_length s th : @theory NumR s = Ok th -> length th = theta_max s.
Proof. intros H. apply collect_length in H. now rewrite H, map_length, seq_length. Qed.

(* the index from pair angles that are all 0 *)
Theorem mindex_of_zero_angles s (angs : list R) th :
  Forall (eq 0) angs -> angs <> [] ->
  @theory NumR s = Ok th -> Forall (Rle 0) th -> nth 0 th 0 <= 1 ->
  @mindex_of_angles NumR s angs = Ok ((1 + rsum th) / 2 - nth 0 th 0).
Proof.
  intros Hz Hne Hth Hnn H0. unfold mindex_of_angles. rewrite Hth.
  pose proof (theory_length s th Hth) as Hlen. destruct (theta_max_ge2 s) as (n & En).
  rewrite En in *. rewrite hist_density_zeros by assumption.
  destruct th as [|t0 ts]; [discriminate|]. cbn [length] in Hlen. injection Hlen as Hlen.
  cbn [nth] in *. inversion Hnn; subst. rewrite <- Hlen.
  now rewrite m_of_unit_mass.
Qed.

(* single-orientation texture: all grains equal, at least two of them; as_quat returns a
   unit quaternion (the oracle hypothesis) -- both variants, every lattice system *)
Theorem mindex_single_closed (as_quat : list R -> Q4) v s (os : list (list R)) o th :
  (2 <= length os)%nat -> Forall (eq o) os -> qnorm2 (as_quat o) = 1 ->
  @theory NumR s = Ok th -> Forall (Rle 0) th -> nth 0 th 0 <= 1 ->
  Forall (eq 0) (@angles NumR v s (map as_quat os)) /\
  @misorientation_index NumR as_quat v s os = Ok ((1 + rsum th) / 2 - nth 0 th 0).
Proof.
  intros Hn Hall Hq Hth Hnn H0. unfold misorientation_index, mindex_quats.
  rewrite (Forall_eq_is_repeat o os Hall), !map_repeat'.
  assert (Hq1: 1 <= qnorm2 (as_quat o)) by (rewrite Hq; apply Rle_refl).
  destruct (angles_single v s (as_quat o) (length os) Hq1 Hn) as [Hz Hne].
  split; [assumption|]. apply mindex_of_zero_angles; assumption.
Qed.
