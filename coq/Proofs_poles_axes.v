(* Proofs_poles_axes.v -- the reference-axes STRING of pydrex.geometry.poles:
   case-insensitivity, the 24 spellings of the six legal strings (hand model and the 24
   GENERATED traces), the default arguments, the batch as the map of the one-orientation
   function, and what the source does with illegal strings. *)
From Coq Require Import Reals ZArith List Bool Ascii String Lra Lia.
From PV Require Import Num NumR Model_density Proofs_geometry Proofs_density Model_poles_axes.
From PV.gen Require Import Gen_geometry.
Import ListNotations.
Open Scope R_scope.

(* ------------------------------------------------------------------------- *)
(* str.lower()                                                               *)
(* ------------------------------------------------------------------------- *)
Lemma lower_ascii_idem (c : ascii) : lower_ascii (lower_ascii c) = lower_ascii c.
Proof. destruct c as [[] [] [] [] [] [] [] []]; reflexivity. Qed.

Lemma lower_str_idem (s : string) : lower_str (lower_str s) = lower_str s.
Proof. induction s as [|c s IH]; cbn [lower_str]; [reflexivity|]. rewrite lower_ascii_idem, IH. reflexivity. Qed.

Lemma lower_str_length (s : string) : String.length (lower_str s) = String.length s.
Proof. induction s as [|c s IH]; cbn [lower_str String.length]; [reflexivity|]. rewrite IH. reflexivity. Qed.

Lemma ref_axes_read_lower (s : string) : ref_axes_read (lower_str s) = ref_axes_read s.
Proof. unfold ref_axes_read. rewrite lower_str_idem. reflexivity. Qed.

(* poles(.., ref_axes = s, ..) = poles(.., ref_axes = s.lower(), ..): every string, every
   number type, every choice of set.pop() *)
Theorem poles_case_insensitive_proof {F : Num} (s : string) (pick : nat) (As : list (arr F)) (hkl : arr F) :
  poles_str (lower_str s) pick As hkl = poles_str s pick As hkl.
Proof. unfold poles_str. rewrite ref_axes_read_lower. reflexivity. Qed.

(* ------------------------------------------------------------------------- *)
(* the 24 spellings: what the string is read as                               *)
(* ------------------------------------------------------------------------- *)
Definition read_as (ax : Z) : res (nat * nat * list nat) :=
  Ok (fst (axes_of ax), snd (axes_of ax), [upward (axes_of ax)]).

Theorem spellings_read_proof :
  Forall (fun sa : string * Z => valid_axes (snd sa) /\ ref_axes_read (fst sa) = read_as (snd sa)) spelling_table.
Proof. repeat constructor; unfold valid_axes; cbn [snd]; lia. Qed.

Theorem spellings_complete_proof :
  List.length spelling_table = 24%nat /\ NoDup (map fst spelling_table) /\
  (forall ax, valid_axes ax -> exists s, In (s, ax) spelling_table /\ lower_str s = s) /\
  (forall s ax, In (s, ax) spelling_table -> In (lower_str s, ax) spelling_table).
Proof.
  split; [reflexivity|]. split.
  - repeat (constructor; [cbn; intros H; repeat (destruct H as [H|H]; [discriminate H|]); exact H|]).
    constructor.
  - split.
    + intros ax H. six ax H; eexists; (split; [|shelve]); cbn; tauto.
      Unshelve. all: reflexivity.
    + intros s ax H. cbn in H.
      repeat (destruct H as [H|H]; [injection H as <- <-; cbn; tauto|]). contradiction.
Qed.

(* ------------------------------------------------------------------------- *)
(* columns by index = the generated function of the lower-case string         *)
(* ------------------------------------------------------------------------- *)
Lemma poles_idx_char ax (A hkl : arr R) : valid_axes ax ->
  @poles_idx NumR (fst (axes_of ax)) (snd (axes_of ax)) (upward (axes_of ax)) A hkl
  = @poles_one NumR ax A hkl.
Proof.
  intros Hax. destruct (poles_one_char ax A hkl Hax) as [Hnz Hz].
  assert (H0 : valid_axes 0) by (unfold valid_axes; lia).
  unfold poles_idx. change (@k_poles_xy NumR) with (poles_gen 0).
  destruct (Req_dec (dnorm A hkl) 0) as [E|E].
  - rewrite (poles_gen_zero 0 A hkl H0 E), (Hz E). reflexivity.
  - destruct (poles_gen_char 0 A hkl H0 E) as (px & py & pz & Eg & Hx & Hy & Hzz).
    rewrite Eg, (Hnz E). cbn [axes_of fst snd upward Nat.sub] in Hx, Hy, Hzz.
    unfold unit_dir. six ax Hax; cbn [axes_of fst snd upward Nat.sub nth]; rewrite Hx, Hy, Hzz; reflexivity.
Qed.

Lemma poles_idx_all_char ax (As : list (arr R)) (hkl : arr R) : valid_axes ax ->
  @poles_idx_all NumR (fst (axes_of ax)) (snd (axes_of ax)) (upward (axes_of ax)) As hkl
  = @poles_all NumR ax As hkl.
Proof.
  intros Hax. induction As as [|A As IH]; cbn [poles_idx_all poles_all]; [reflexivity|].
  rewrite (poles_idx_char ax A hkl Hax), IH. reflexivity.
Qed.

(* every spelling of a legal string: poles = the batch over the generated function of the
   lower-case string, whatever set.pop() picks *)
Theorem poles_str_spelling_proof (s : string) (ax : Z) (pick : nat) (As : list (arr R)) (hkl : arr R) :
  In (s, ax) spelling_table -> @poles_str NumR s pick As hkl = @poles_all NumR ax As hkl.
Proof.
  intros Hin. pose proof spellings_read_proof as Ft. rewrite Forall_forall in Ft.
  destruct (Ft _ Hin) as [Hax Hr]. cbn [fst snd] in Hax, Hr.
  unfold poles_str. rewrite Hr. unfold read_as, pick_up. cbn [List.length].
  rewrite Nat.mod_1_r. cbn [nth]. apply poles_idx_all_char. exact Hax.
Qed.

(* ... hence the direction / unit-vector statements hold for all 24 spellings *)
Theorem poles_str_are_direction_proof (s : string) (ax : Z) (pick : nat) (As : list (arr R)) (hkl : arr R) ps :
  In (s, ax) spelling_table -> @poles_str NumR s pick As hkl = Ok ps ->
  Forall2 (fun A p => dnorm A hkl <> 0 /\ p = unit_dir ax A hkl) As ps /\
  Forall (fun p : R * R * R => let '(a, b, c) := p in a * a + b * b + c * c = 1) ps.
Proof.
  intros Hin H. rewrite (poles_str_spelling_proof s ax pick As hkl Hin) in H.
  pose proof spellings_read_proof as Ft. rewrite Forall_forall in Ft.
  destruct (Ft _ Hin) as [Hax _]. cbn [snd] in Hax. split.
  - exact (poles_are_direction_proof ax As hkl ps Hax H).
  - exact (poles_unit_proof ax As hkl ps Hax H).
Qed.

(* ------------------------------------------------------------------------- *)
(* the 24 GENERATED traces (tie T): upper/mixed case = lower case             *)
(* ------------------------------------------------------------------------- *)
Definition gen_fn := arr R -> arr R -> res (arr R * arr R * arr R).

Definition gen_table : list (string * Z * gen_fn) :=
  [("xy", 0, @k_poles_xy NumR); ("Xy", 0, @k_poles_Xy NumR); ("xY", 0, @k_poles_xY NumR); ("XY", 0, @k_poles_XY NumR);
   ("xz", 1, @k_poles_xz NumR); ("Xz", 1, @k_poles_Xz NumR); ("xZ", 1, @k_poles_xZ NumR); ("XZ", 1, @k_poles_XZ NumR);
   ("yx", 2, @k_poles_yx NumR); ("Yx", 2, @k_poles_Yx NumR); ("yX", 2, @k_poles_yX NumR); ("YX", 2, @k_poles_YX NumR);
   ("yz", 3, @k_poles_yz NumR); ("Yz", 3, @k_poles_Yz NumR); ("yZ", 3, @k_poles_yZ NumR); ("YZ", 3, @k_poles_YZ NumR);
   ("zx", 4, @k_poles_zx NumR); ("Zx", 4, @k_poles_Zx NumR); ("zX", 4, @k_poles_zX NumR); ("ZX", 4, @k_poles_ZX NumR);
   ("zy", 5, @k_poles_zy NumR); ("Zy", 5, @k_poles_Zy NumR); ("zY", 5, @k_poles_zY NumR); ("ZY", 5, @k_poles_ZY NumR)]%string%Z.

Theorem gen_spellings_proof :
  map fst gen_table = spelling_table /\
  Forall (fun t : string * Z * gen_fn => forall A hkl, snd t A hkl = poles_gen (snd (fst t)) A hkl) gen_table.
Proof. split; [reflexivity|]. repeat constructor. Qed.

(* the default arguments of the source: ref_axes = "xz", hkl = [1, 0, 0] *)
Theorem poles_default_proof (A : arr R) : @k_poles_default NumR A = poles_gen 1 A e100.
Proof.
  cbv [poles_gen k_poles_default k_poles_xz e100 mk_arr nth]. numR.
  rewrite !Rmult_1_r, !Rmult_0_r, !Rplus_0_r. reflexivity.
Qed.

(* ------------------------------------------------------------------------- *)
(* the batch is the map of the one-orientation function                       *)
(* ------------------------------------------------------------------------- *)
Theorem poles_batch_proof {F : Num} (ax : Z) (As : list (arr F)) (hkl : arr F) ps :
  poles_all ax As hkl = Ok ps -> Forall2 (fun A p => poles_one ax A hkl = Ok p) As ps.
Proof.
  revert ps. induction As as [|A As IH]; intros ps H; cbn [poles_all] in H.
  - injection H as <-. constructor.
  - destruct (poles_one ax A hkl) as [p|e] eqn:E; [|discriminate].
    destruct (poles_all ax As hkl) as [qs|e]; [|discriminate]. injection H as <-.
    constructor; [exact E|]. apply IH. reflexivity.
Qed.

Theorem poles_batch_app_proof {F : Num} (ax : Z) (As Bs : list (arr F)) (hkl : arr F) ps qs :
  poles_all ax As hkl = Ok ps -> poles_all ax Bs hkl = Ok qs ->
  poles_all ax (As ++ Bs) hkl = Ok (ps ++ qs).
Proof.
  revert ps. induction As as [|A As IH]; intros ps H1 H2; cbn [poles_all app] in *.
  - injection H1 as <-. exact H2.
  - destruct (poles_one ax A hkl) as [p|e]; [|discriminate].
    destruct (poles_all ax As hkl) as [rs|e]; [|discriminate]. injection H1 as <-.
    rewrite (IH rs eq_refl H2). reflexivity.
Qed.

(* ------------------------------------------------------------------------- *)
(* illegal strings                                                            *)
(* ------------------------------------------------------------------------- *)
Lemma get_lower (n : nat) (s : string) :
  String.get n (lower_str s) = option_map lower_ascii (String.get n s).
Proof.
  revert n; induction s as [|c s IH]; intros n; cbn [lower_str String.get]; [reflexivity|].
  destruct n; [reflexivity|]. apply IH.
Qed.

(* fewer than two characters: IndexError (from _ref_axes[1]) *)
Theorem ref_axes_short_proof (s : string) : (String.length s < 2)%nat -> ref_axes_read s = Err IndexError.
Proof.
  intros H. destruct s as [|a [|b s]].
  - reflexivity.
  - unfold ref_axes_read. cbn [lower_str String.get].
    destruct (leftover (String (lower_ascii a) "")) eqn:E; [|reflexivity].
    exfalso. revert E. unfold leftover. cbn [filter mem_ascii axis_letter].
    rewrite !orb_false_r.
    destruct (Ascii.eqb "x" (lower_ascii a)) eqn:E1; cbn [negb]; [|discriminate].
    apply Ascii.eqb_eq in E1. rewrite <- E1. cbn. discriminate.
  - cbn [String.length] in H. lia.
Qed.

(* a successful read: the first two letters (lower-cased) are axis letters and the upward
   candidates are exactly the axis letters that do not occur in the string *)
Theorem ref_axes_ok_inv_proof (s : string) (h v : nat) (ups : list nat) :
  ref_axes_read s = Ok (h, v, ups) ->
  exists a b, String.get 0 s = Some a /\ String.get 1 s = Some b /\
    axis_index (lower_ascii a) = Some h /\ axis_index (lower_ascii b) = Some v /\
    ups = leftover (lower_str s) /\ ups <> [].
Proof.
  unfold ref_axes_read. rewrite !get_lower.
  destruct (leftover (lower_str s)) as [|u0 us] eqn:El; [discriminate|].
  destruct (String.get 1 s) as [b|]; cbn [option_map]; [|discriminate].
  destruct (axis_index (lower_ascii b)) as [v'|] eqn:Eb; [|discriminate].
  destruct (String.get 0 s) as [a|]; cbn [option_map]; [|discriminate].
  destruct (axis_index (lower_ascii a)) as [h'|] eqn:Ea; [|discriminate].
  intros H. injection H as <- <- <-. exists a, b. repeat split; try assumption. discriminate.
Qed.

(* observations (outside the six strings of the property; pinned behaviour of the source):
   a repeated letter leaves two candidates for set.pop() -- the third output then depends on
   the hash seed of the process; a third character is ignored unless it is the missing axis
   letter; other letters raise KeyError *)
Theorem ref_axes_illegal_proof :
  ref_axes_read "xx" = Ok (0, 0, [1; 2])%nat /\ ref_axes_read "ZZ" = Ok (2, 2, [0; 1])%nat /\
  ref_axes_read "xzz" = Ok (0, 2, [1])%nat /\ ref_axes_read "xz " = Ok (0, 2, [1])%nat /\
  ref_axes_read "xzy" = Err KeyError /\ ref_axes_read "xw" = Err KeyError /\
  ref_axes_read " xz" = Err KeyError /\ ref_axes_read "x" = Err IndexError /\
  ref_axes_read "" = Err IndexError.
Proof. repeat split. Qed.

(* ------------------------------------------------------------------------- *)
(* non-vacuity                                                               *)
(* ------------------------------------------------------------------------- *)
Lemma poles_str_nonvacuous_proof :
  In ("XZ"%string, 1%Z) spelling_table /\ (String.length "x" < 2)%nat /\
  exists ps, @poles_str NumR "XZ" 0 [id9] e100 = Ok ps.
Proof.
  assert (Hin : In ("XZ"%string, 1%Z) spelling_table) by (cbn; tauto).
  split; [exact Hin|]. split; [cbn; lia|].
  rewrite (poles_str_spelling_proof "XZ" 1 0 [id9] e100 Hin).
  apply poles_total_proof; [unfold valid_axes; lia|]. constructor; [|constructor].
  unfold dnorm, dirn, id9, e100, mk_arr. cbn [nth Nat.add]. apply sqrt_pos_ne. lra.
Qed.
