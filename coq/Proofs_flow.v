(* Proofs_flow.v -- facts about EXACT solutions of the integrated system y' = rhs(t, y), stated
   component-wise with Coquelicot's is_derive.  They connect the proved properties of the vector
   field (C03 skew rates, C05 scaling, C06 F block, C07 zero blocks) to the integrated quantities
   the properties speak about.  What remains unproved is only that LSODA approximates the exact
   solution within its tolerance (measured on every run). *)
From Coq Require Import Reals Lra Lia.
From Coquelicot Require Import Coquelicot.
Open Scope R_scope.

(* a component with zero derivative on [a,b] is constant there (C07: null forcing) *)
Lemma zero_derivative_constant (f : R -> R) (a b : R) :
  a <= b -> (forall t, a <= t <= b -> is_derive f t 0) -> f b = f a.
Proof.
  intros Hab Hd.
  destruct (MVT_gen f a b (fun _ => 0)) as [c [_ Hc]].
  - intros x Hx. apply Hd. rewrite Rmin_left, Rmax_right in Hx by lra. lra.
  - intros x Hx. rewrite Rmin_left, Rmax_right in Hx by lra.
    apply derivable_continuous_pt. apply ex_derive_Reals_0. exists 0. apply Hd. lra.
  - lra.
Qed.

(* C05: time compression.  If y solves y' = f(t, y) on [a,b] and fk(t, z) = k f(k t, z) (which is
   what C05_vector_field_scales gives for the k-scaled velocity-gradient history), then
   z(t) = y(k t) solves z' = fk(t, z) on [a/k, b/k] -- same states, hence the same end value and the
   same texture, for every k > 0 *)
Section Rescale.
  Variable n : nat.
  Variable f : R -> (nat -> R) -> nat -> R.
  Variable y : nat -> R -> R.
  Variables a b k : R.
  Hypothesis Hk : 0 < k.
  Hypothesis Hsol : forall i t, a <= t <= b -> is_derive (y i) t (f t (fun j => y j t) i).

  Definition fk (t : R) (z : nat -> R) (i : nat) : R := k * f (k * t) z i.
  Definition z (i : nat) (t : R) : R := y i (k * t).

  Theorem solution_rescale : forall i t, a / k <= t <= b / k ->
    is_derive (z i) t (fk t (fun j => z j t) i).
  Proof.
    intros i t [Ht1 Ht2]. unfold z, fk.
    assert (Hin : a <= k * t <= b).
    { split.
      - apply (Rmult_le_compat_l k) in Ht1; [|lra]. replace (k * (a / k)) with a in Ht1 by (field; lra). exact Ht1.
      - apply (Rmult_le_compat_l k) in Ht2; [|lra]. replace (k * (b / k)) with b in Ht2 by (field; lra). exact Ht2. }
    pose proof (Hsol i (k * t) Hin) as Hd.
    pose proof (is_derive_comp (y i) (fun t => k * t) t _ k Hd) as Hc.
    change (scal k (f (k * t) (fun j => y j (k * t)) i)) with (k * f (k * t) (fun j => y j (k * t)) i) in Hc.
    apply Hc. auto_derive; [exact I|ring].
  Qed.

  Theorem rescale_end_value : forall i, z i (b / k) = y i b.
  Proof. intros i. unfold z. f_equal. field. lra. Qed.
End Rescale.

(* C01: A.A^T is a first integral of any flow whose rate satisfies Ad.A^T + A.Ad^T = 0 (what
   C03 proves of every dislocation-type rate): each entry of A(t).A(t)^T is constant *)
Section FirstIntegral.
  Variables A Ad : nat -> nat -> R -> R.        (* A p q t, rate Ad p q t *)
  Variables a b : R.
  Hypothesis Hab : a <= b.
  Hypothesis HA : forall p q t, a <= t <= b -> is_derive (A p q) t (Ad p q t).
  Variables p p' : nat.
  Hypothesis Hskew : forall t, a <= t <= b ->
    Ad p 0%nat t * A p' 0%nat t + Ad p 1%nat t * A p' 1%nat t + Ad p 2%nat t * A p' 2%nat t
    + (A p 0%nat t * Ad p' 0%nat t + A p 1%nat t * Ad p' 1%nat t + A p 2%nat t * Ad p' 2%nat t) = 0.

  Definition gram (t : R) : R :=
    A p 0%nat t * A p' 0%nat t + A p 1%nat t * A p' 1%nat t + A p 2%nat t * A p' 2%nat t.

  Theorem orthonormality_first_integral : gram b = gram a.
  Proof.
    apply zero_derivative_constant; [exact Hab|]. intros t Ht.
    rewrite <- (Hskew t Ht). unfold gram.
    pose proof (HA p 0%nat t Ht) as H0. pose proof (HA p 1%nat t Ht) as H1. pose proof (HA p 2%nat t Ht) as H2.
    pose proof (HA p' 0%nat t Ht) as G0. pose proof (HA p' 1%nat t Ht) as G1. pose proof (HA p' 2%nat t Ht) as G2.
    auto_derive.
    - repeat split; eexists; eassumption.
    - replace (Derive (fun x : R => A p 0%nat x) t) with (Ad p 0%nat t) by (symmetry; apply is_derive_unique; exact H0).
      replace (Derive (fun x : R => A p 1%nat x) t) with (Ad p 1%nat t) by (symmetry; apply is_derive_unique; exact H1).
      replace (Derive (fun x : R => A p 2%nat x) t) with (Ad p 2%nat t) by (symmetry; apply is_derive_unique; exact H2).
      replace (Derive (fun x : R => A p' 0%nat x) t) with (Ad p' 0%nat t) by (symmetry; apply is_derive_unique; exact G0).
      replace (Derive (fun x : R => A p' 1%nat x) t) with (Ad p' 1%nat t) by (symmetry; apply is_derive_unique; exact G1).
      replace (Derive (fun x : R => A p' 2%nat x) t) with (Ad p' 2%nat t) by (symmetry; apply is_derive_unique; exact G2).
      ring.
  Qed.
End FirstIntegral.

(* C06: along any solution of dF/dt = L(t).F the determinant satisfies (det F)' = tr L . det F
   (differential form of det F(t) = det F(t0) exp(int tr L)) *)
Section Det.
  Variables F L : nat -> R -> R.         (* row-major components F k t, L k t, k < 9 *)
  Variable t : R.
  Definition LF (i j : nat) : R :=
    L (3 * i)%nat t * F j t + L (3 * i + 1)%nat t * F (3 + j)%nat t + L (3 * i + 2)%nat t * F (6 + j)%nat t.
  Hypothesis HF : forall i j, (i < 3)%nat -> (j < 3)%nat -> is_derive (F (3 * i + j)%nat) t (LF i j).

  Definition detF (s : R) : R :=
    F 0%nat s * (F 4%nat s * F 8%nat s - F 5%nat s * F 7%nat s)
    - F 1%nat s * (F 3%nat s * F 8%nat s - F 5%nat s * F 6%nat s)
    + F 2%nat s * (F 3%nat s * F 7%nat s - F 4%nat s * F 6%nat s).

  Theorem det_rate : is_derive detF t ((L 0%nat t + L 4%nat t + L 8%nat t) * detF t).
  Proof.
    pose proof (HF 0 0 ltac:(lia) ltac:(lia)) as H0; pose proof (HF 0 1 ltac:(lia) ltac:(lia)) as H1;
    pose proof (HF 0 2 ltac:(lia) ltac:(lia)) as H2; pose proof (HF 1 0 ltac:(lia) ltac:(lia)) as H3;
    pose proof (HF 1 1 ltac:(lia) ltac:(lia)) as H4; pose proof (HF 1 2 ltac:(lia) ltac:(lia)) as H5;
    pose proof (HF 2 0 ltac:(lia) ltac:(lia)) as H6; pose proof (HF 2 1 ltac:(lia) ltac:(lia)) as H7;
    pose proof (HF 2 2 ltac:(lia) ltac:(lia)) as H8.
    cbn [Nat.mul Nat.add] in *.
    unfold detF. auto_derive.
    - repeat split; eexists; eassumption.
    - replace (Derive (fun x : R => F 0%nat x) t) with (LF 0 0) by (symmetry; apply is_derive_unique; exact H0).
      replace (Derive (fun x : R => F 1%nat x) t) with (LF 0 1) by (symmetry; apply is_derive_unique; exact H1).
      replace (Derive (fun x : R => F 2%nat x) t) with (LF 0 2) by (symmetry; apply is_derive_unique; exact H2).
      replace (Derive (fun x : R => F 3%nat x) t) with (LF 1 0) by (symmetry; apply is_derive_unique; exact H3).
      replace (Derive (fun x : R => F 4%nat x) t) with (LF 1 1) by (symmetry; apply is_derive_unique; exact H4).
      replace (Derive (fun x : R => F 5%nat x) t) with (LF 1 2) by (symmetry; apply is_derive_unique; exact H5).
      replace (Derive (fun x : R => F 6%nat x) t) with (LF 2 0) by (symmetry; apply is_derive_unique; exact H6).
      replace (Derive (fun x : R => F 7%nat x) t) with (LF 2 1) by (symmetry; apply is_derive_unique; exact H7).
      replace (Derive (fun x : R => F 8%nat x) t) with (LF 2 2) by (symmetry; apply is_derive_unique; exact H8).
      unfold LF. cbn [Nat.mul Nat.add]. ring.
  Qed.
End Det.
