(* Model_scsv_py.v -- the target of the Python-ast translator translator/specs_scsv.py (tie T of group scsv).

   `pyval` is a small universe of Python values; the definitions below are hand-written models of the
   *builtins* the translated functions of pydrex.io use (`in`, `==`, `len`, subscription, slicing, `str.strip`,
   `dict.get`, `isinstance`, calling one of the classes str/int/float/bool/complex, `np.isnan`, `zip`, ...) and of
   the control structure of a Python function body (sequencing, early `return`, `raise`, `continue`, `for` with
   loop-carried variables, `try/except`).  The pydrex code itself is NOT written here: coq/gen/Gen_scsv.v is
   regenerated from /repo/src/pydrex/io.py on every run and consists of applications of these primitives only.
   Text-level builtins (int(str), float(str), str(int), str.isidentifier ...) stay oracles (`Model_scsv.oracles`).
   Outside the modelled domain every primitive answers `Err EUnmodelled` (never a made-up value).
   No proofs in this file. *)
From Coq Require Import String Ascii List ZArith Bool NArith.
From PV Require Import Model_scsv Model_scsv_frame.
Import ListNotations.
Open Scope string_scope.

Inductive pyval :=
| PNone
| PBool (b : bool)
| PInt (z : Z)
| PFloat (f : ftok)
| PCplx (re im : ftok)
| PStr (s : string)
| PList (l : list pyval)
| PTuple (l : list pyval)
| PDict (kv : list (string * pyval))     (* insertion order; string keys only *)
| PType (t : ty)                          (* the classes str / int / float / bool / complex *)
| POther (tag : string).                  (* any other object: opaque *)

(* completion of a statement block: T = the variables the block hands on, L = the loop-carried variables of
   the enclosing `for` (for `continue` / `break`) *)
Inductive ctl (T L : Type) :=
| CNormal (st : T)
| CReturn (v : pyval)
| CContinue (l : L)
| CBreak (l : L).
Arguments CNormal {T L}. Arguments CReturn {T L}. Arguments CContinue {T L}. Arguments CBreak {T L}.

(* what iterating an object yields: the items, then possibly an exception instead of StopIteration
   (zip(strict=True) on arguments of unequal length) *)
Definition iter := (list pyval * option err)%type.

(* ---------------------------------------------------------------- between pyval and the typed model *)
Definition abs_yval (p : pyval) : yval :=
  match p with
  | PNone => YNull | PStr s => YStr s | PInt z => YInt z | PFloat f => YFloat f | PBool b => YBool b
  | _ => YOther
  end.

Definition emb_yval (v : yval) : pyval :=
  match v with
  | YNull => PNone | YStr s => PStr s | YInt z => PInt z | YFloat f => PFloat f | YBool b => PBool b
  | YOther => POther "yother"
  end.

Definition abs_cell (p : pyval) : option cell :=
  match p with
  | PStr s => Some (CStr s) | PInt z => Some (CInt z) | PFloat f => Some (CFloat f) | PBool b => Some (CBool b)
  | PCplx re im => Some (CCplx re im)
  | _ => None
  end.

Definition emb_cell (c : cell) : pyval :=
  match c with
  | CStr s => PStr s | CInt z => PInt z | CFloat f => PFloat f | CBool b => PBool b | CCplx re im => PCplx re im
  end.

Definition lift_cell (r : res cell) : res pyval := match r with Ok c => Ok (emb_cell c) | Err e => Err e end.
Definition lift_bool (r : res bool) : res pyval := match r with Ok b => Ok (PBool b) | Err e => Err e end.

Fixpoint dget (kv : list (string * pyval)) (k : string) : option pyval :=
  match kv with
  | [] => None
  | (k', v) :: r => if String.eqb k k' then Some v else dget r k
  end.

Fixpoint dset (kv : list (string * pyval)) (k : string) (v : pyval) : list (string * pyval) :=
  match kv with
  | [] => [(k, v)]
  | (k', v') :: r => if String.eqb k k' then (k', v) :: r else (k', v') :: dset r k v
  end.

Definition is_other (p : pyval) : bool := match p with POther _ | PType _ => true | _ => false end.

(* the typed schema a Python dictionary stands for (what harness/props/c16.py encodes a schema as): every key
   may be absent; delimiter, missing and type are strings when present, fields is a list of dictionaries; names
   and fills are scalars (anything else: YOther); other keys (unit ...) are not looked at *)
Definition opt_str (o : option pyval) : option (option string) :=
  match o with None => Some None | Some (PStr s) => Some (Some s) | Some _ => None end.

Definition abs_field (p : pyval) : option field :=
  match p with
  | PDict kv =>
      match opt_str (dget kv "type"), dget kv "name" with
      | Some t, n =>
          if match n with Some x => is_other x | None => false end then None
          else Some (mkField (option_map abs_yval n) t (option_map abs_yval (dget kv "fill")))
      | None, _ => None
      end
  | _ => None
  end.

Fixpoint abs_fields (l : list pyval) : option (list field) :=
  match l with
  | [] => Some []
  | p :: r => match abs_field p, abs_fields r with Some f, Some fs => Some (f :: fs) | _, _ => None end
  end.

Definition abs_schema (p : pyval) : option schema :=
  match p with
  | PDict kv =>
      match opt_str (dget kv "delimiter"), opt_str (dget kv "missing"),
            match dget kv "fields" with
            | None => Some None
            | Some (PList l) => option_map (@Some _) (abs_fields l)
            | Some _ => None
            end with
      | Some d, Some m, Some fs => Some (mkSchema d m fs)
      | _, _, _ => None
      end
  | _ => None
  end.
Definition unhashable (p : pyval) : bool := match p with PList _ | PDict _ => true | _ => false end.

Section Prims.
Variable O : oracles.

(* ---------------------------------------------------------------- truth value, ==, in *)
Definition py_truth (v : pyval) : res bool :=
  match v with
  | PNone => Ok false
  | PBool b => Ok b
  | PInt z => Ok (negb (Z.eqb z 0))
  | PFloat f => Ok (negb (f_iszero f))
  | PCplx re im => Ok (negb (f_iszero re && f_iszero im))
  | PStr s => Ok (negb (String.eqb s ""))
  | PList l | PTuple l => Ok (match l with [] => false | _ => true end)
  | PDict kv => Ok (match kv with [] => false | _ => true end)
  | PType _ => Ok true
  | POther _ => Err EUnmodelled
  end.

(* Python `a == b` (never raises on the modelled values); sequences element-wise from the left (CPython compares
   the lengths first: the results differ only where an element comparison is outside the model) *)
Fixpoint py_eqb (a b : pyval) {struct a} : res bool :=
  match a, b with
  | POther _, _ | _, POther _ => Err EUnmodelled
  | PDict _, PDict _ => Err EUnmodelled
  | PList l1, PList l2 =>
      (fix go (l1 l2 : list pyval) {struct l1} : res bool :=
         match l1, l2 with
         | [], [] => Ok true
         | x :: r1, y :: r2 => e <- py_eqb x y ;; if e then go r1 r2 else Ok false
         | _, _ => Ok false
         end) l1 l2
  | PTuple l1, PTuple l2 =>
      (fix go (l1 l2 : list pyval) {struct l1} : res bool :=
         match l1, l2 with
         | [], [] => Ok true
         | x :: r1, y :: r2 => e <- py_eqb x y ;; if e then go r1 r2 else Ok false
         | _, _ => Ok false
         end) l1 l2
  | PNone, PNone => Ok true
  | PType t, PType u => Ok (ty_eqb t u)
  | _, _ => match abs_cell a, abs_cell b with
            | Some x, Some y => Ok (cell_eq O x y)
            | _, _ => Ok false
            end
  end.

Definition py_eq (a b : pyval) : res pyval := lift_bool (py_eqb a b).
Definition py_ne (a b : pyval) : res pyval := e <- py_eqb a b ;; Ok (PBool (negb e)).

(* x in [l0; l1; ...]: identity-or-equality, left to right *)
Fixpoint mem_py (x : pyval) (l : list pyval) : res bool :=
  match l with
  | [] => Ok false
  | y :: r => e <- py_eqb x y ;; if e then Ok true else mem_py x r
  end.

Definition py_inb (x c : pyval) : res bool :=
  match c with
  | PDict kv =>
      match x with
      | PStr k => Ok (match dget kv k with Some _ => true | None => false end)
      | POther _ => Err EUnmodelled
      | PList _ | PDict _ => Err EType                    (* unhashable type *)
      | _ => Ok false                                      (* string keys only *)
      end
  | PStr m => match x with
              | PStr d => Ok (contains m d)
              | POther _ => Err EUnmodelled
              | _ => Err EType                             (* 'in <string>' requires string as left operand *)
              end
  | PList l | PTuple l => mem_py x l
  | POther _ => Err EUnmodelled
  | _ => Err EType                                         (* argument of type ... is not iterable *)
  end.

Definition py_in (x c : pyval) : res pyval := lift_bool (py_inb x c).
Definition py_not_in (x c : pyval) : res pyval := e <- py_inb x c ;; Ok (PBool (negb e)).
Definition py_not (v : pyval) : res pyval := t <- py_truth v ;; Ok (PBool (negb t)).

Definition py_is_none (v : pyval) : res pyval :=
  match v with PNone => Ok (PBool true) | POther _ => Err EUnmodelled | _ => Ok (PBool false) end.
Definition py_is_not_none (v : pyval) : res pyval :=
  match v with PNone => Ok (PBool false) | POther _ => Err EUnmodelled | _ => Ok (PBool true) end.

(* `a and b`, `a or b`: the value of the operand that decides *)
Definition py_and (va : pyval) (b : res pyval) : res pyval := t <- py_truth va ;; if t then b else Ok va.
Definition py_or (va : pyval) (b : res pyval) : res pyval := t <- py_truth va ;; if t then Ok va else b.

(* ---------------------------------------------------------------- integers *)
Definition as_int (v : pyval) : option Z :=
  match v with PInt z => Some z | PBool b => Some (if b then 1 else 0)%Z | _ => None end.

Definition int_op2 {A} (f : Z -> Z -> res A) (a b : pyval) : res A :=
  match as_int a, as_int b with
  | Some x, Some y => f x y
  | _, _ => Err EUnmodelled
  end.

Definition py_lt := int_op2 (fun x y => Ok (PBool (Z.ltb x y))).
Definition py_le := int_op2 (fun x y => Ok (PBool (Z.leb x y))).
Definition py_gt := int_op2 (fun x y => Ok (PBool (Z.ltb y x))).
Definition py_ge := int_op2 (fun x y => Ok (PBool (Z.leb y x))).
Definition py_add (a b : pyval) : res pyval :=
  match a, b with
  | PStr x, PStr y => Ok (PStr (x ++ y))                       (* str + str *)
  | _, _ => int_op2 (fun x y => Ok (PInt (x + y))) a b
  end.
Definition py_sub := int_op2 (fun x y => Ok (PInt (x - y))).
Definition py_mod := int_op2 (fun x y => if Z.eqb y 0 then Err EUnmodelled else Ok (PInt (x mod y))).

(* ---------------------------------------------------------------- containers *)
Definition py_len (v : pyval) : res pyval :=
  match v with
  | PStr s => Ok (PInt (Z.of_nat (utf8_len s)))
  | PList l | PTuple l => Ok (PInt (Z.of_nat (length l)))
  | PDict kv => Ok (PInt (Z.of_nat (length kv)))
  | POther _ => Err EUnmodelled
  | _ => Err EType
  end.

Definition nth_py (l : list pyval) (i : Z) : res pyval :=
  let n := Z.of_nat (length l) in
  let j := if Z.ltb i 0 then (i + n)%Z else i in
  if Z.ltb j 0 || Z.leb n j then Err EIndex
  else match nth_error l (Z.to_nat j) with Some v => Ok v | None => Err EIndex end.

Definition py_getitem (c k : pyval) : res pyval :=
  match c with
  | PDict kv =>
      match k with
      | PStr s => match dget kv s with Some v => Ok v | None => Err EKey end
      | POther _ => Err EUnmodelled
      | PList _ | PDict _ => Err EType
      | _ => Err EKey
      end
  | PList l | PTuple l =>
      match as_int k with
      | Some i => nth_py l i
      | None => match k with POther _ => Err EUnmodelled | _ => Err EType end
      end
  | PStr _ | POther _ => Err EUnmodelled
  | _ => Err EType                                          (* not subscriptable *)
  end.

(* c[lo:hi] with absent or non-negative integer bounds *)
Definition bound (v : pyval) (dflt : nat) : option nat :=
  match v with
  | PNone => Some dflt
  | PInt z => if Z.ltb z 0 then None else Some (Z.to_nat z)
  | _ => None
  end.

Definition py_slice (c lo hi : pyval) : res pyval :=
  match c with
  | PStr s => match bound lo 0, bound hi (String.length s) with
              | Some a, Some b => Ok (PStr (substring a (b - a) s))
              | _, _ => Err EUnmodelled
              end
  | PList l => match bound lo 0, bound hi (length l) with
               | Some a, Some b => Ok (PList (firstn (b - a) (skipn a l)))
               | _, _ => Err EUnmodelled
               end
  | PTuple l => match bound lo 0, bound hi (length l) with
                | Some a, Some b => Ok (PTuple (firstn (b - a) (skipn a l)))
                | _, _ => Err EUnmodelled
                end
  | POther _ => Err EUnmodelled
  | _ => Err EType
  end.

(* statements on a local, unaliased container (the translator checks that): x.append(v), x.pop(), x[k] = v *)
Definition py_append (x v : pyval) : res pyval :=
  match x with PList l => Ok (PList (l ++ [v])) | POther _ => Err EUnmodelled | _ => Err EAttr end.
Definition py_pop (x : pyval) : res pyval :=
  match x with
  | PList [] => Err EIndex
  | PList l => Ok (PList (removelast l))
  | _ => Err EUnmodelled
  end.
Definition py_setitem (x k v : pyval) : res pyval :=
  match x, k with
  | PDict kv, PStr s => Ok (PDict (dset kv s v))
  | _, _ => Err EUnmodelled
  end.

(* ---------------------------------------------------------------- methods *)
Definition py_isidentifier (v : pyval) : res pyval :=
  match v with
  | PStr s => Ok (PBool (o_is_ident O s))
  | POther _ | PType _ => Err EUnmodelled           (* str.isidentifier exists (unbound method) *)
  | _ => Err EAttr
  end.
Definition py_strip (v : pyval) : res pyval :=
  match v with PStr s => Ok (PStr (strip s)) | POther _ => Err EUnmodelled | _ => Err EAttr end.
Definition py_lower (v : pyval) : res pyval :=
  match v with PStr s => Ok (PStr (lower s)) | POther _ => Err EUnmodelled | _ => Err EAttr end.
Definition py_startswith (v p : pyval) : res pyval :=
  match v, p with
  | PStr s, PStr q => Ok (PBool (String.prefix q s))
  | PStr _, _ => Err EUnmodelled
  | POther _, _ => Err EUnmodelled
  | _, _ => Err EAttr
  end.
(* dict.get(key, default) *)
Definition py_get (v k dflt : pyval) : res pyval :=
  match v with
  | PDict kv => match k with
                | PStr s => Ok (match dget kv s with Some x => x | None => dflt end)
                | POther _ => Err EUnmodelled
                | PList _ | PDict _ => Err EType
                | _ => Ok dflt
                end
  | POther _ => Err EUnmodelled
  | _ => Err EAttr
  end.
(* d.keys(): a view; `in` and iteration on it behave as on the dictionary itself (unhashable operands included) *)
Definition py_keys (v : pyval) : res pyval :=
  match v with PDict kv => Ok (PDict kv) | POther _ => Err EUnmodelled | _ => Err EAttr end.

Definition one_char (p : pyval) : option ascii :=
  match p with PStr (String c EmptyString) => Some c | _ => None end.

(* s.find(c) / s.find(c, 0, stop) for a one-character needle: the code-point offset of the first occurrence, -1 when
   there is none.  The model string holds UTF-8 bytes: the byte offset is the answer when the text before it is ASCII;
   otherwise the position is outside the model *)
Definition find_from0 (s : string) (c : ascii) (stop : nat) : res pyval :=
  match find_char c s stop with
  | Some k => if ascii_prefix s k then Ok (PInt (Z.of_nat k)) else Err EUnmodelled
  | None => Ok (PInt (-1))
  end.
Definition py_find (v c : pyval) : res pyval :=
  match v, one_char c with
  | PStr s, Some ch => find_from0 s ch (String.length s)
  | PStr _, None => Err EUnmodelled
  | POther _, _ => Err EUnmodelled
  | _, _ => Err EAttr
  end.
Definition py_find3 (v c lo hi : pyval) : res pyval :=
  match v, one_char c, lo, hi with
  | PStr s, Some ch, PInt 0, PInt z => if Z.ltb z 0 then Err EUnmodelled else find_from0 s ch (Z.to_nat z)
  | PStr _, _, _, _ => Err EUnmodelled
  | POther _, _, _, _ => Err EUnmodelled
  | _, _, _, _ => Err EAttr
  end.
(* s.replace(a, b) for a one-character a *)
Fixpoint replace_char (c : ascii) (b s : string) : string :=
  match s with
  | EmptyString => EmptyString
  | String x r => if Ascii.eqb x c then b ++ replace_char c b r else String x (replace_char c b r)
  end.
Definition py_replace (v a b : pyval) : res pyval :=
  match v, one_char a, b with
  | PStr s, Some c, PStr t => Ok (PStr (replace_char c t s))
  | PStr _, _, _ => Err EUnmodelled
  | POther _, _, _ => Err EUnmodelled
  | _, _, _ => Err EAttr
  end.
(* s.split(sep) for a one-character separator *)
Definition py_split (v sep : pyval) : res pyval :=
  match v, one_char sep with
  | PStr s, Some ch => Ok (PList (map PStr (split_on (fun c => Ascii.eqb c ch) s)))
  | PStr _, None => Err EUnmodelled
  | POther _, _ => Err EUnmodelled
  | _, _ => Err EAttr
  end.
(* re.split(pattern, s): only the pattern of parse_scsv_schema, "\(|\)" *)
Definition py_re_split (pat v : pyval) : res pyval :=
  match pat, v with
  | PStr p, PStr s => if String.eqb p "\(|\)" then Ok (PList (map PStr (split_on is_paren s))) else Err EUnmodelled
  | PStr _, POther _ => Err EUnmodelled
  | PStr _, _ => Err EType
  | _, _ => Err EUnmodelled
  end.
(* itertools.batched(l, 2) on a list (the last tuple may be shorter) *)
Fixpoint batched2 (l : list pyval) : list pyval :=
  match l with
  | a :: b :: r => PTuple [a; b] :: batched2 r
  | [a] => [PTuple [a]]
  | [] => []
  end.
Definition py_batched (v n : pyval) : res pyval :=
  match v, n with
  | PList l, PInt 2 => Ok (PList (batched2 l))
  | _, _ => Err EUnmodelled
  end.

(* ---------------------------------------------------------------- classes: isinstance, __qualname__, call *)
Definition py_isinstance (v cls : pyval) : res pyval :=
  match cls with
  | PType t =>
      match v with
      | POther _ => Err EUnmodelled
      | PBool _ => Ok (PBool (ty_eqb t TBool || ty_eqb t TInt))
      | PInt _ => Ok (PBool (ty_eqb t TInt))
      | PFloat _ => Ok (PBool (ty_eqb t TFloat))
      | PCplx _ _ => Ok (PBool (ty_eqb t TCplx))
      | PStr _ => Ok (PBool (ty_eqb t TStr))
      | _ => Ok (PBool false)                    (* None, containers, classes are instances of none of the five *)
      end
  | _ => Err EUnmodelled
  end.

Definition ty_qualname (t : ty) : string :=
  match t with TStr => "str" | TInt => "int" | TFloat => "float" | TBool => "bool" | TCplx => "complex" end.

Definition py_qualname (v : pyval) : res pyval :=
  match v with PType t => Ok (PStr (ty_qualname t)) | POther _ => Err EUnmodelled | _ => Err EAttr end.

(* calling an object with one positional argument: t(x) for one of the five classes *)
Definition py_call1 (f x : pyval) : res pyval :=
  match f with
  | PType t =>
      match x with
      | PCplx re im =>
          match t with
          | TStr => Ok (PStr (o_str_cplx O re im))
          | TCplx => Ok (PCplx re im)
          | TBool => Ok (PBool (negb (f_iszero re && f_iszero im)))
          | TInt | TFloat => Err EType
          end
      | _ => lift_cell (conv O t (abs_yval x))
      end
  | POther _ => Err EUnmodelled
  | _ => Err EType                                          (* object is not callable *)
  end.

(* np.isnan(x) on a Python scalar *)
Definition np_isnan (v : pyval) : res pyval :=
  match abs_cell v with
  | Some c => lift_bool (cell_isnan c)
  | None => match v with PNone => Err EType | _ => Err EUnmodelled end
  end.

(* ---------------------------------------------------------------- iteration *)
Definition py_iter (v : pyval) : res iter :=
  match v with
  | PList l | PTuple l => Ok (l, None)
  | PDict kv => Ok (map (fun p => PStr (fst p)) kv, None)
  | PStr _ | POther _ => Err EUnmodelled
  | _ => Err EType
  end.

Fixpoint items_of (vs : list pyval) : res (list (list pyval)) :=
  match vs with
  | [] => Ok []
  | v :: r => i <- py_iter v ;;
              match snd i with
              | Some _ => Err EUnmodelled
              | None => rest <- items_of r ;; Ok (fst i :: rest)
              end
  end.

Definition all_same_length (ls : list (list pyval)) : bool :=
  match ls with [] => true | l0 :: r => forallb (fun l => Nat.eqb (length l) (length l0)) r end.

(* zipn stops at the first exhausted argument: the length of the first one is enough fuel *)
Definition zip_fuel (ls : list (list pyval)) : nat := match ls with [] => 0 | l0 :: _ => length l0 end.

(* zip(a, b, ..., strict=True): the tuples up to the shortest argument, then ValueError when the lengths differ *)
Definition py_zip_strict (args : list pyval) : res iter :=
  ls <- items_of args ;;
  Ok (map PTuple (zipn (zip_fuel ls) ls), if all_same_length ls then None else Some EValue).
(* zip(a, b, ...) *)
Definition py_zip (args : list pyval) : res iter :=
  ls <- items_of args ;; Ok (map PTuple (zipn (zip_fuel ls) ls), None).
(* zip( *x) *)
Definition py_zip_star (x : pyval) : res iter :=
  i <- py_iter x ;;
  match snd i with Some _ => Err EUnmodelled | None => py_zip (fst i) end.

Fixpoint enum_from (k : Z) (l : list pyval) : list pyval :=
  match l with [] => [] | x :: r => PTuple [PInt k; x] :: enum_from (k + 1) r end.
Definition py_enumerate (i : iter) : res iter := Ok (enum_from 0 (fst i), snd i).

(* list(<iterator>) : the terminal exception surfaces *)
Definition py_list_of (i : iter) : res pyval :=
  match snd i with Some e => Err e | None => Ok (PList (fst i)) end.

(* target unpacking: a, b = v *)
Definition seq_items (v : pyval) : res (list pyval) :=
  match v with
  | PList l | PTuple l => Ok l
  | PStr _ | PDict _ | POther _ => Err EUnmodelled
  | _ => Err EType
  end.
Definition py_unpack2 (v : pyval) : res (pyval * pyval) :=
  l <- seq_items v ;; match l with [a; b] => Ok (a, b) | _ => Err EValue end.
Definition py_unpack3 (v : pyval) : res (pyval * pyval * pyval) :=
  l <- seq_items v ;; match l with [a; b; c] => Ok (a, b, c) | _ => Err EValue end.

End Prims.

(* ---------------------------------------------------------------- control structure *)
(* for x in <iter>: body   with loop-carried variables st; `continue` resumes with the next item, `break`
   leaves the loop, `return` leaves the function; the terminal exception of the iterator is raised last *)
Fixpoint for_items {T} (body : pyval -> T -> res (ctl T T)) (xs : list pyval) (stop : option err) (st : T)
  : res (T + pyval) :=
  match xs with
  | [] => match stop with Some e => Err e | None => Ok (inl st) end
  | x :: r =>
      c <- body x st ;;
      match c with
      | CNormal st' | CContinue st' => for_items body r stop st'
      | CBreak st' => Ok (inl st')
      | CReturn v => Ok (inr v)
      end
  end.

Definition for_loop {T L} (body : pyval -> T -> res (ctl T T)) (i : iter) (st : T) : res (ctl T L) :=
  r <- for_items body (fst i) (snd i) st ;;
  match r with inl st' => Ok (CNormal st') | inr v => Ok (CReturn v) end.

(* [x for ... in <iter>] : list comprehension with one clause and no condition *)
Fixpoint comp_items (f : pyval -> res pyval) (xs : list pyval) (stop : option err) : res (list pyval) :=
  match xs with
  | [] => match stop with Some e => Err e | None => Ok [] end
  | x :: r => y <- f x ;; ys <- comp_items f r stop ;; Ok (y :: ys)
  end.
Definition list_comp (f : pyval -> res pyval) (i : iter) : res pyval :=
  l <- comp_items f (fst i) (snd i) ;; Ok (PList l).

(* try: body  except <class e0>: handler *)
Definition py_try {A} (body : res A) (e0 : err) (handler : res A) : res A :=
  match body with
  | Err e => if match e, e0 with
                | SCSV, SCSV | EValue, EValue | EType, EType | EKey, EKey | EIndex, EIndex | EAttr, EAttr => true
                | _, _ => false
                end then handler else Err e
  | r => r
  end.

(* a function body: falling off the end returns None *)
Definition run_fn (b : res (ctl unit unit)) : res pyval :=
  c <- b ;;
  match c with
  | CNormal _ => Ok PNone
  | CReturn v => Ok v
  | _ => Err EUnmodelled
  end.

(* a statement block taken out of a function: its value is the tuple of variables it hands on *)
Definition run_block {T} (b : res (ctl T unit)) : res T :=
  c <- b ;;
  match c with
  | CNormal st => Ok st
  | _ => Err EUnmodelled
  end.
