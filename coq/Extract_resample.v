(* Extract_resample.v -- extraction of the resampling model (group `resample`). *)
From Coq Require Import Extraction ExtrOcamlBasic.
From PV Require Import Num Model_stats Model_stats_session Entry_resample.
Extraction Language OCaml.
Extraction "model_resample.ml" run_resample run_session.
