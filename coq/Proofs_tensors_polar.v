(* Proofs_tensors_polar.v -- polar decomposition over an SVD oracle, and the invariants
   of a second order tensor (generated k_invariants_second_order). *)
From Coq Require Import Reals ZArith List Lra Lia Bool.
From PV Require Import Num NumR Model_voigt Model_decomp Proofs_tensors_alg Proofs_tensors_rot.
From PV.gen Require Import Gen_tensors.
Import ListNotations.
Open Scope R_scope.

(* ---------------------------------------------------------------------- *)
(* 3x3 matrices as functions                                               *)
(* ---------------------------------------------------------------------- *)
Lemma mm_assoc A B C i j : mm (mm A B) C i j = mm A (mm B C) i j.
Proof. unfold mm, sum3; ring. Qed.
Lemma mm_extL A A' B : eq2b A A' -> eq2b (mm A B) (mm A' B).
Proof. intros H i j Hi Hj; unfold mm, sum3; rewrite !H by lia; reflexivity. Qed.
Lemma mm_extR A B B' : eq2b B B' -> eq2b (mm A B) (mm A B').
Proof. intros H i j Hi Hj; unfold mm, sum3; rewrite !H by lia; reflexivity. Qed.
Lemma eq2b_trans A B C : eq2b A B -> eq2b B C -> eq2b A C.
Proof. intros H1 H2 i j Hi Hj; rewrite H1, H2 by assumption; reflexivity. Qed.
Lemma eq2b_refl A : eq2b A A.
Proof. intros i j _ _; reflexivity. Qed.
Lemma eq2b_all A B : (forall i j, A i j = B i j) -> eq2b A B.
Proof. intros H i j _ _; apply H. Qed.

Ltac three_m a := destruct a as [|[|[|a]]]; [ | | | exfalso; lia ].
Lemma mm_id_l A : eq2b (mm id3 A) A.
Proof. intros i j Hi Hj; three_m i; unfold mm, sum3, id3; cbn [Nat.eqb]; ring. Qed.
Lemma mm_id_r A : eq2b (mm A id3) A.
Proof. intros i j Hi Hj; three_m j; unfold mm, sum3, id3; cbn [Nat.eqb]; ring. Qed.
Lemma tr3_mm A B i j : tr3 (mm A B) i j = mm (tr3 B) (tr3 A) i j.
Proof. unfold tr3, mm, sum3; ring. Qed.
Lemma tr3_ext A B : eq2b A B -> eq2b (tr3 A) (tr3 B).
Proof. intros H i j Hi Hj; unfold tr3; apply H; assumption. Qed.

Definition diagm (s : nat -> R) : M3 := fun i j => if Nat.eqb i j then s i else 0.
Definition sym3 (A : M3) : Prop := forall i j, (i < 3)%nat -> (j < 3)%nat -> A i j = A j i.
(* quadratic form x^T A x *)
Definition quad (A : M3) (x : nat -> R) : R := sum3 (fun i => sum3 (fun j => x i * A i j * x j)).

Lemma orth_def Q : orth Q <-> eq2b (mm (tr3 Q) Q) id3.
Proof. split; intros H a e Ha He; apply (H a e Ha He). Qed.

Lemma mat3_diag3 (s : arr NumR) : eq2b (mat3 (diag3 s)) (diagm s).
Proof.
  intros a b Ha Hb; three_m a; three_m b;
  cbv [mat3 diag3 mk_arr nth diagm Nat.eqb Nat.add Nat.mul]; numR; reflexivity.
Qed.

(* U D U^T is symmetric and positive semi-definite when D = diag(s), s >= 0 *)
Lemma udut_sym (U : M3) s : sym3 (mm U (mm (diagm s) (tr3 U))).
Proof. intros i j _ _. unfold mm, tr3, diagm, sum3; cbn [Nat.eqb]; ring. Qed.

Lemma udut_psd (U : M3) s x : (forall i, (i < 3)%nat -> 0 <= s i) ->
  0 <= quad (mm U (mm (diagm s) (tr3 U))) x.
Proof.
  intros Hs.
  replace (quad (mm U (mm (diagm s) (tr3 U))) x)
    with (sum3 (fun k => s k * (sum3 (fun i => U i k * x i) * sum3 (fun i => U i k * x i)))).
  2: { unfold quad, mm, tr3, diagm, sum3; cbn [Nat.eqb]; ring. }
  pose proof (Hs 0%nat ltac:(lia)). pose proof (Hs 1%nat ltac:(lia)). pose proof (Hs 2%nat ltac:(lia)).
  unfold sum3 at 1.
  repeat apply Rplus_le_le_0_compat; apply Rmult_le_pos; try assumption; apply Rle_0_sqr.
Qed.

(* ---------------------------------------------------------------------- *)
(* left polar decomposition over the SVD oracle                             *)
(* ---------------------------------------------------------------------- *)
Section PolarOracle.
  Variables M U S Vh : arr NumR.
  (* what numpy.linalg.svd promises (each is residual-checked at run time) *)
  Hypothesis HU1 : orth (mat3 U).              (* U^T U = I *)
  Hypothesis HU2 : orth (tr3 (mat3 U)).        (* U U^T = I *)
  Hypothesis HV1 : orth (mat3 Vh).             (* Vh^T Vh = I *)
  Hypothesis HV2 : orth (tr3 (mat3 Vh)).       (* Vh Vh^T = I *)
  Hypothesis HS : forall i, (i < 3)%nat -> 0 <= S i.
  Hypothesis HM : eq2b (mat3 M) (mm (mat3 U) (mm (diagm S) (mat3 Vh))).

  Let Rl := fst (polar_left U S Vh).
  Let Pl := snd (polar_left U S Vh).

  Lemma Rl_mm : eq2b (mat3 Rl) (mm (mat3 U) (mat3 Vh)).
  Proof. apply mat3_matmul3. Qed.

  Lemma Pl_mm : eq2b (mat3 Pl) (mm (mat3 U) (mm (diagm S) (tr3 (mat3 U)))).
  Proof.
    unfold Pl, polar_left, snd.
    eapply eq2b_trans; [apply mat3_matmul3|]. apply mm_extR.
    eapply eq2b_trans; [apply mat3_matmul3|].
    eapply eq2b_trans; [apply mm_extL, mat3_diag3|]. apply mm_extR, mat3_transpose3.
  Qed.

  (* (A B)^T (A B) = I  when  A^T A = I, B^T B = I *)
  Lemma orth_mm A B : orth A -> orth B -> orth (mm A B).
  Proof.
    intros HA HB. apply orth_def.
    apply eq2b_trans with (mm (tr3 B) (mm (mm (tr3 A) A) B)).
    { apply eq2b_all; intros i j. unfold mm, tr3, sum3; ring. }
    apply eq2b_trans with (mm (tr3 B) (mm id3 B)).
    { apply mm_extR, mm_extL, orth_def, HA. }
    apply eq2b_trans with (mm (tr3 B) B).
    { apply mm_extR, mm_id_l. }
    apply orth_def, HB.
  Qed.

  Lemma orth_ext A B : eq2b A B -> orth A -> orth B.
  Proof.
    intros E H a e Ha He. rewrite <- (H a e Ha He). unfold sum3. rewrite !E by lia. reflexivity.
  Qed.

  Theorem polar_left_orthogonal : orth (mat3 Rl) /\ orth (tr3 (mat3 Rl)).
  Proof.
    split.
    - apply (orth_ext (mm (mat3 U) (mat3 Vh))); [apply eq2b_sym, Rl_mm|]. apply orth_mm; assumption.
    - apply (orth_ext (mm (tr3 (mat3 Vh)) (tr3 (mat3 U)))).
      + intros i j Hi Hj. rewrite <- tr3_mm. unfold tr3. symmetry. apply Rl_mm; assumption.
      + apply orth_mm; assumption.
  Qed.

  Theorem polar_left_symmetric : sym3 (mat3 Pl).
  Proof.
    intros i j Hi Hj. rewrite (Pl_mm i j), (Pl_mm j i) by assumption. apply udut_sym; assumption.
  Qed.

  Theorem polar_left_psd x : 0 <= quad (mat3 Pl) x.
  Proof.
    replace (quad (mat3 Pl) x) with (quad (mm (mat3 U) (mm (diagm S) (tr3 (mat3 U)))) x).
    - apply udut_psd, HS.
    - unfold quad, sum3. rewrite !Pl_mm by lia. reflexivity.
  Qed.

  (* M = P . R  -- the order the code's `left` variant realises *)
  Theorem polar_left_product : eq2b (mm (mat3 Pl) (mat3 Rl)) (mat3 M).
  Proof.
    apply eq2b_trans with (mm (mm (mat3 U) (mm (diagm S) (tr3 (mat3 U)))) (mm (mat3 U) (mat3 Vh))).
    { eapply eq2b_trans; [apply mm_extL, Pl_mm|]. apply mm_extR, Rl_mm. }
    apply eq2b_trans with (mm (mat3 U) (mm (diagm S) (mm (mm (tr3 (mat3 U)) (mat3 U)) (mat3 Vh)))).
    { apply eq2b_all; intros i j. unfold mm, tr3, sum3; ring. }
    apply eq2b_trans with (mm (mat3 U) (mm (diagm S) (mm id3 (mat3 Vh)))).
    { apply mm_extR, mm_extR, mm_extL, orth_def, HU1. }
    apply eq2b_trans with (mm (mat3 U) (mm (diagm S) (mat3 Vh))).
    { apply mm_extR, mm_extR, mm_id_l. }
    apply eq2b_sym, HM.
  Qed.

  (* ---- right variant:  U_m = Vh^T diag(S) Vh,  R = M . inv(U_m) ---- *)
  Let Um := matmul3 (transpose3 Vh) (matmul3 (diag3 S) Vh).

  Lemma Um_mm : eq2b (mat3 Um) (mm (tr3 (mat3 Vh)) (mm (diagm S) (tr3 (tr3 (mat3 Vh))))).
  Proof.
    unfold Um.
    eapply eq2b_trans; [apply mat3_matmul3|].
    eapply eq2b_trans; [apply mm_extL, mat3_transpose3|]. apply mm_extR.
    eapply eq2b_trans; [apply mat3_matmul3|].
    eapply eq2b_trans; [apply mm_extL, mat3_diag3|]. apply mm_extR. apply eq2b_refl.
  Qed.

  Theorem polar_right_stretch_symmetric : sym3 (mat3 Um).
  Proof.
    intros i j Hi Hj. rewrite (Um_mm i j), (Um_mm j i) by assumption. apply udut_sym; assumption.
  Qed.

  Theorem polar_right_stretch_psd x : 0 <= quad (mat3 Um) x.
  Proof.
    replace (quad (mat3 Um) x) with (quad (mm (tr3 (mat3 Vh)) (mm (diagm S) (tr3 (tr3 (mat3 Vh))))) x).
    - apply udut_psd, HS.
    - unfold quad, sum3. rewrite !Um_mm by lia. reflexivity.
  Qed.

  (* adjugate inverse *)
  Lemma inv3_spec (A B : arr NumR) : inv3 A = Ok B ->
    det3 A <> 0 /\ eq2b (mm (mat3 B) (mat3 A)) id3 /\ eq2b (mm (mat3 A) (mat3 B)) id3.
  Proof.
    unfold inv3.
    change (@neqb NumR (@det3 NumR A) (@nzero NumR)) with (Reqb (@det3 NumR A) 0).
    destruct (Reqb (@det3 NumR A) 0) eqn:E; [discriminate|].
    apply Reqb_false in E. intros H; inversion H; subst B; clear H.
    split; [exact E|]. unfold det3 in E; numR.
    split; intros i j Hi Hj; three_m i; three_m j;
    cbv [mm sum3 mat3 mk_arr nth id3 Nat.eqb Nat.add Nat.mul det3]; numR; field; exact E.
  Qed.

  Theorem polar_right_total : det3 Um <> 0 -> exists Rr, polar_right M S Vh = Ok (Rr, Um).
  Proof.
    intros Hd. unfold polar_right. fold Um. unfold inv3.
    change (@neqb NumR (@det3 NumR Um) (@nzero NumR)) with (Reqb (@det3 NumR Um) 0).
    destruct (Reqb (@det3 NumR Um) 0) eqn:E; [apply Reqb_true in E; contradiction|].
    eexists; reflexivity.
  Qed.

  (* M = R . U_m  and  R^T R = I *)
  Theorem polar_right_product Rr Ur : polar_right M S Vh = Ok (Rr, Ur) ->
    Ur = Um /\ eq2b (mm (mat3 Rr) (mat3 Ur)) (mat3 M) /\ orth (mat3 Rr).
  Proof.
    unfold polar_right. fold Um. destruct (inv3 Um) as [B|] eqn:EB; [|discriminate].
    intros H; inversion H; subst Rr Ur; clear H.
    apply inv3_spec in EB. destruct EB as (Hd & HBA & HAB).
    split; [reflexivity|].
    assert (Hprod: eq2b (mm (mat3 (matmul3 M B)) (mat3 Um)) (mat3 M)).
    { apply eq2b_trans with (mm (mm (mat3 M) (mat3 B)) (mat3 Um)).
      { apply mm_extL, mat3_matmul3. }
      apply eq2b_trans with (mm (mat3 M) (mm (mat3 B) (mat3 Um))).
      { apply eq2b_all; intros; apply mm_assoc. }
      eapply eq2b_trans; [apply mm_extR, HBA|]. apply mm_id_r. }
    split; [exact Hprod|].
    (* R^T R = B^T (M^T M) B,  M^T M = Um Um,  B^T Um = I = Um B *)
    set (A := mat3 Um) in *. set (Bm := mat3 B) in *. set (Mm := mat3 M) in *.
    assert (HMM: eq2b (mm (tr3 Mm) Mm) (mm A A)).
    { set (V := mat3 Vh). set (D := diagm S). set (Uu := mat3 U).
      apply eq2b_trans with (mm (tr3 (mm Uu (mm D V))) (mm Uu (mm D V))).
      { eapply eq2b_trans; [apply mm_extL, tr3_ext, HM|]. apply mm_extR, HM. }
      apply eq2b_trans with (mm (tr3 V) (mm D (mm (mm (tr3 Uu) Uu) (mm D V)))).
      { apply eq2b_all; intros i j. unfold mm, tr3, D, diagm, sum3; cbn [Nat.eqb]; ring. }
      apply eq2b_trans with (mm (tr3 V) (mm D (mm id3 (mm D V)))).
      { apply mm_extR, mm_extR, mm_extL, orth_def, HU1. }
      apply eq2b_trans with (mm (tr3 V) (mm D (mm D V))).
      { apply mm_extR, mm_extR, mm_id_l. }
      apply eq2b_sym.
      apply eq2b_trans with (mm (mm (tr3 V) (mm D (tr3 (tr3 V)))) (mm (tr3 V) (mm D (tr3 (tr3 V))))).
      { eapply eq2b_trans; [apply mm_extL, Um_mm|]. apply mm_extR, Um_mm. }
      apply eq2b_trans with (mm (tr3 V) (mm D (mm (mm V (tr3 V)) (mm D V)))).
      { apply eq2b_all; intros i j. unfold mm, tr3, sum3; ring. }
      apply eq2b_trans with (mm (tr3 V) (mm D (mm id3 (mm D V)))).
      { apply mm_extR, mm_extR, mm_extL.
        intros a e Ha He. pose proof (HV2 a e Ha He) as Hv. unfold tr3, sum3 in Hv.
        unfold mm, tr3, sum3, id3. rewrite <- Hv. reflexivity. }
      apply mm_extR, mm_extR, mm_id_l. }
    assert (HBtA: eq2b (mm (tr3 Bm) A) id3).
    { (* (A B)^T = B^T A^T = B^T A *)
      intros i j Hi Hj.
      transitivity (tr3 (mm A Bm) i j).
      - rewrite tr3_mm. unfold mm, sum3. unfold tr3 at 2 4 6.
        rewrite !(polar_right_stretch_symmetric _ j) by lia. reflexivity.
      - unfold tr3. rewrite (HAB j i) by assumption. unfold id3. rewrite Nat.eqb_sym. reflexivity. }
    apply orth_def.
    apply eq2b_trans with (mm (tr3 (mm Mm Bm)) (mm Mm Bm)).
    { eapply eq2b_trans; [apply mm_extL, tr3_ext, mat3_matmul3|]. apply mm_extR, mat3_matmul3. }
    apply eq2b_trans with (mm (tr3 Bm) (mm (mm (tr3 Mm) Mm) Bm)).
    { apply eq2b_all; intros i j. unfold mm, tr3, sum3; ring. }
    apply eq2b_trans with (mm (tr3 Bm) (mm (mm A A) Bm)).
    { apply mm_extR, mm_extL, HMM. }
    apply eq2b_trans with (mm (mm (tr3 Bm) A) (mm A Bm)).
    { apply eq2b_all; intros i j. unfold mm, tr3, sum3; ring. }
    eapply eq2b_trans; [apply mm_extL, HBtA|].
    eapply eq2b_trans; [apply mm_id_l|]. exact HAB.
  Qed.
End PolarOracle.

(* ---------------------------------------------------------------------- *)
(* invariants of a second order tensor                                      *)
(* ---------------------------------------------------------------------- *)
Definition I1 (M : arr NumR) : R := fst (fst (k_invariants_second_order M)).
Definition I2 (M : arr NumR) : R := snd (fst (k_invariants_second_order M)).
Definition I3 (M : arr NumR) : R := snd (k_invariants_second_order M).

(* det (M - x I) *)
Definition charpoly (M : arr NumR) (x : R) : R :=
  @det3 NumR (mk_arr 0 [M 0%nat - x; M 1%nat; M 2%nat; M 3%nat; M 4%nat - x; M 5%nat; M 6%nat; M 7%nat; M 8%nat - x]).

Theorem charpoly_coeffs (M : arr NumR) x :
  charpoly M x = - (x * x * x) + I1 M * (x * x) - I2 M * x + I3 M.
Proof.
  cbv [charpoly det3 I1 I2 I3 k_invariants_second_order fst snd mk_arr nth]; numR; ring.
Qed.

Theorem I3_is_det (M : arr NumR) : I3 M = det3 M.
Proof. cbv [det3 I3 k_invariants_second_order fst snd]; numR; ring. Qed.

(* if l1 l2 l3 are the eigenvalues (roots of the characteristic polynomial, with
   multiplicity) the invariants are their elementary symmetric functions *)
Theorem invariants_are_esf (M : arr NumR) l1 l2 l3 :
  (forall x, charpoly M x = (l1 - x) * (l2 - x) * (l3 - x)) ->
  I1 M = l1 + l2 + l3 /\ I2 M = l1 * l2 + l2 * l3 + l3 * l1 /\ I3 M = l1 * l2 * l3.
Proof.
  intros H.
  pose proof (H 0) as H0. pose proof (H 1) as H1. pose proof (H (-1)) as Hm.
  rewrite charpoly_coeffs in H0, H1, Hm.
  assert (E3: I3 M = l1 * l2 * l3) by (rewrite <- (Rplus_0_l (I3 M)); lra).
  repeat split; try assumption; nra.
Qed.

(* ---------------------------------------------------------------------- *)
(* non-vacuity of the hypotheses used in Properties/C11.v                   *)
(* ---------------------------------------------------------------------- *)
Lemma C11_nonvacuous_proof :
  orth (mat3 (@eye3 NumR)) /\ orth (tr3 (mat3 (@eye3 NumR))) /\
  (forall i, (i < 3)%nat -> 0 <= (fun _ : nat => 1) i) /\
  eq2b (mat3 (@eye3 NumR)) (mm (mat3 (@eye3 NumR)) (mm (diagm (fun _ => 1)) (mat3 (@eye3 NumR)))) /\
  @det3 NumR (@matmul3 NumR (transpose3 eye3) (matmul3 (@diag3 NumR (fun _ => 1)) eye3)) <> 0 /\
  (forall i j, (i < 6)%nat -> (j < 6)%nat -> mat6 (fun _ => 1) i j = mat6 (fun _ => 1) j i) /\
  elastic_sym (t4 (fun _ => 1)).
Proof.
  repeat split.
  - intros a e Ha He; three_m a; three_m e;
    cbv [sum3 mat3 eye3 mk_arr nth Nat.eqb Nat.add Nat.mul]; numR; ring.
  - intros a e Ha He; three_m a; three_m e;
    cbv [sum3 tr3 mat3 eye3 mk_arr nth Nat.eqb Nat.add Nat.mul]; numR; ring.
  - intros; lra.
  - intros a e Ha He; three_m a; three_m e;
    cbv [mm diagm sum3 mat3 eye3 mk_arr nth Nat.eqb Nat.add Nat.mul]; numR; ring.
  - cbv [det3 matmul3 transpose3 diag3 eye3 mk_arr nth]; numR. lra.
Qed.
