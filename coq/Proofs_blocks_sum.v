(* Proofs_blocks_sum.v -- blocked SUMMATION over the reals: partial sums over consecutive blocks of any positive size (tail
   included) add up to the sum; the floor-division variant sums only the first b * (n / b) terms (seeded changes C03d, C14f). *)
From Coq Require Import Reals List Arith Lia Lra.
From PV Require Import Model_blocks Proofs_blocks.
Import ListNotations.
Open Scope R_scope.

Definition bsum (l : list R) : R := fold_right Rplus 0 l.

Lemma bsum_app l1 l2 : bsum (l1 ++ l2) = bsum l1 + bsum l2.
Proof. induction l1 as [|x l1 IH]; simpl; [lra | rewrite IH; lra]. Qed.

Lemma bsum_concat (ls : list (list R)) : bsum (concat ls) = bsum (map bsum ls).
Proof. induction ls as [|l ls IH]; [reflexivity|]. cbn [concat map]. rewrite bsum_app, IH. reflexivity. Qed.

Theorem sum_blocked (b : nat) (l : list R) : (0 < b)%nat -> bsum (map bsum (chunks b l)) = bsum l.
Proof. intros Hb. rewrite <- bsum_concat. now rewrite concat_chunks. Qed.

Theorem sum_floor_blocks (b : nat) (l : list R) : (0 < b)%nat ->
  bsum (map bsum (full_blocks b l)) = bsum (firstn (b * (length l / b)) l).
Proof. intros Hb. rewrite <- bsum_concat. now rewrite concat_full_blocks. Qed.

(* the floor variant is wrong as soon as the dropped tail does not sum to 0 *)
Theorem sum_floor_blocks_defect (b : nat) (l : list R) : (0 < b)%nat ->
  bsum l - bsum (map bsum (full_blocks b l)) = bsum (skipn (b * (length l / b)) l).
Proof.
  intros Hb. rewrite sum_floor_blocks by auto.
  rewrite <- (firstn_skipn (b * (length l / b)) l) at 1. rewrite bsum_app. lra.
Qed.

Example sum_floor_blocks_witness : bsum (map bsum (full_blocks 2 [1; 2; 4])) = 3 /\ bsum [1; 2; 4] = 7.
Proof. unfold full_blocks, chunks; simpl; split; lra. Qed.
