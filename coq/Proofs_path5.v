(* Proofs_path5.v -- C06: UNIQUENESS of the deformation-gradient block along exact solutions.
   dF/dt = L(t).F is linear, so two exact solutions that start from the same F and see the same velocity-gradient
   history (bounded on [a,b]) have the same F at every time -- whatever else the two integrated systems contain.
   Instantiated with two DIFFERENT minerals (phase, fabric, regime, grain count, texture, assemblage, phase
   fractions, recrystallisation parameters, strain-rate-scale oracle): the returned F does not depend on any of
   them, a bulk multiphase update returns the single-phase F, and splitting the interval changes nothing. *)
From Coq Require Import Reals ZArith List Bool Lra Lia.
From Coquelicot Require Import Coquelicot.
From PV Require Import Num NumR Model_core Model_minerals Proofs_core Proofs_minerals Proofs_rhs Proofs_flow
                       Proofs_path Proofs_path2 Proofs_gronwall.
Import ListNotations.
Open Scope R_scope.

Lemma two_dlx (dd l x B : R) : Rabs l <= B -> 2 * dd * (l * x) <= B * (dd * dd + x * x).
Proof.
  intros Hl. pose proof (Rle_0_sqr (dd - x)) as H1. pose proof (Rle_0_sqr (dd + x)) as H2. unfold Rsqr in H1, H2.
  assert (Hs : 0 <= dd * dd + x * x) by nra.
  destruct (Rle_dec 0 l) as [Hp|Hn].
  - rewrite Rabs_right in Hl by lra.
    assert (2 * dd * (l * x) <= l * (dd * dd + x * x)) by nra.
    assert (l * (dd * dd + x * x) <= B * (dd * dd + x * x)) by (apply Rmult_le_compat_r; assumption).
    lra.
  - rewrite Rabs_left in Hl by lra.
    assert (2 * dd * (l * x) <= (- l) * (dd * dd + x * x)) by nra.
    assert ((- l) * (dd * dd + x * x) <= B * (dd * dd + x * x)) by (apply Rmult_le_compat_r; assumption).
    lra.
Qed.

Lemma row_term (dd l0 l1 l2 x0 x1 x2 B : R) :
  Rabs l0 <= B -> Rabs l1 <= B -> Rabs l2 <= B ->
  2 * dd * (l0 * x0 + l1 * x1 + l2 * x2) <= B * (3 * (dd * dd) + x0 * x0 + x1 * x1 + x2 * x2).
Proof.
  intros H0 H1 H2.
  pose proof (two_dlx dd l0 x0 B H0). pose proof (two_dlx dd l1 x1 B H1). pose proof (two_dlx dd l2 x2 B H2). lra.
Qed.

Section LinearUnique.
  Variables F1 F2 L : nat -> R -> R.        (* row-major components, index < 9 *)
  Variables a b B : R.
  Hypothesis Hab : a <= b.
  Hypothesis H1 : forall i j t, (i < 3)%nat -> (j < 3)%nat -> a <= t <= b -> is_derive (F1 (3 * i + j)%nat) t (LF F1 L t i j).
  Hypothesis H2 : forall i j t, (i < 3)%nat -> (j < 3)%nat -> a <= t <= b -> is_derive (F2 (3 * i + j)%nat) t (LF F2 L t i j).
  Hypothesis HL : forall k t, (k < 9)%nat -> a <= t <= b -> Rabs (L k t) <= B.
  Hypothesis Ha : forall k, (k < 9)%nat -> F1 k a = F2 k a.

  Definition Dk (k : nat) (t : R) : R := F1 k t - F2 k t.
  Definition Dd (i j : nat) (t : R) : R :=
    L (3 * i)%nat t * Dk j t + L (3 * i + 1)%nat t * Dk (3 + j)%nat t + L (3 * i + 2)%nat t * Dk (6 + j)%nat t.

  Lemma Dk_derive i j t : (i < 3)%nat -> (j < 3)%nat -> a <= t <= b -> is_derive (Dk (3 * i + j)%nat) t (Dd i j t).
  Proof.
    intros Hi Hj Ht. unfold Dk.
    replace (Dd i j t) with (LF F1 L t i j - LF F2 L t i j) by (unfold Dd, LF, Dk; ring).
    apply (is_derive_minus (V := R_NormedModule)); [apply H1|apply H2]; assumption.
  Qed.

  Definition eF (t : R) : R :=
    Dk 0 t * Dk 0 t + Dk 1 t * Dk 1 t + Dk 2 t * Dk 2 t + Dk 3 t * Dk 3 t + Dk 4 t * Dk 4 t
    + Dk 5 t * Dk 5 t + Dk 6 t * Dk 6 t + Dk 7 t * Dk 7 t + Dk 8 t * Dk 8 t.
  Definition eFd (t : R) : R :=
    2 * Dk 0 t * Dd 0 0 t + 2 * Dk 1 t * Dd 0 1 t + 2 * Dk 2 t * Dd 0 2 t
    + 2 * Dk 3 t * Dd 1 0 t + 2 * Dk 4 t * Dd 1 1 t + 2 * Dk 5 t * Dd 1 2 t
    + 2 * Dk 6 t * Dd 2 0 t + 2 * Dk 7 t * Dd 2 1 t + 2 * Dk 8 t * Dd 2 2 t.

  Lemma eF_derive t : a <= t <= b -> is_derive eF t (eFd t).
  Proof.
    intros Ht. unfold eF, eFd.
    pose proof (Dk_derive 0 0 t ltac:(lia) ltac:(lia) Ht) as G0. pose proof (Dk_derive 0 1 t ltac:(lia) ltac:(lia) Ht) as G1.
    pose proof (Dk_derive 0 2 t ltac:(lia) ltac:(lia) Ht) as G2. pose proof (Dk_derive 1 0 t ltac:(lia) ltac:(lia) Ht) as G3.
    pose proof (Dk_derive 1 1 t ltac:(lia) ltac:(lia) Ht) as G4. pose proof (Dk_derive 1 2 t ltac:(lia) ltac:(lia) Ht) as G5.
    pose proof (Dk_derive 2 0 t ltac:(lia) ltac:(lia) Ht) as G6. pose proof (Dk_derive 2 1 t ltac:(lia) ltac:(lia) Ht) as G7.
    pose proof (Dk_derive 2 2 t ltac:(lia) ltac:(lia) Ht) as G8.
    cbn [Nat.mul Nat.add] in *.
    auto_derive.
    - repeat split; eexists; eassumption.
    - replace (Derive (fun x : R => Dk 0 x) t) with (Dd 0 0 t) by (symmetry; apply is_derive_unique; exact G0).
      replace (Derive (fun x : R => Dk 1 x) t) with (Dd 0 1 t) by (symmetry; apply is_derive_unique; exact G1).
      replace (Derive (fun x : R => Dk 2 x) t) with (Dd 0 2 t) by (symmetry; apply is_derive_unique; exact G2).
      replace (Derive (fun x : R => Dk 3 x) t) with (Dd 1 0 t) by (symmetry; apply is_derive_unique; exact G3).
      replace (Derive (fun x : R => Dk 4 x) t) with (Dd 1 1 t) by (symmetry; apply is_derive_unique; exact G4).
      replace (Derive (fun x : R => Dk 5 x) t) with (Dd 1 2 t) by (symmetry; apply is_derive_unique; exact G5).
      replace (Derive (fun x : R => Dk 6 x) t) with (Dd 2 0 t) by (symmetry; apply is_derive_unique; exact G6).
      replace (Derive (fun x : R => Dk 7 x) t) with (Dd 2 1 t) by (symmetry; apply is_derive_unique; exact G7).
      replace (Derive (fun x : R => Dk 8 x) t) with (Dd 2 2 t) by (symmetry; apply is_derive_unique; exact G8).
      ring.
  Qed.

  Lemma eFd_le t : a <= t <= b -> eFd t <= 6 * B * eF t.
  Proof.
    intros Ht. unfold eFd, eF, Dd. cbn [Nat.mul Nat.add].
    pose proof (HL 0 t ltac:(lia) Ht) as L0. pose proof (HL 1 t ltac:(lia) Ht) as L1. pose proof (HL 2 t ltac:(lia) Ht) as L2.
    pose proof (HL 3 t ltac:(lia) Ht) as L3. pose proof (HL 4 t ltac:(lia) Ht) as L4. pose proof (HL 5 t ltac:(lia) Ht) as L5.
    pose proof (HL 6 t ltac:(lia) Ht) as L6. pose proof (HL 7 t ltac:(lia) Ht) as L7. pose proof (HL 8 t ltac:(lia) Ht) as L8.
    pose proof (row_term (Dk 0 t) _ _ _ (Dk 0 t) (Dk 3 t) (Dk 6 t) B L0 L1 L2).
    pose proof (row_term (Dk 1 t) _ _ _ (Dk 1 t) (Dk 4 t) (Dk 7 t) B L0 L1 L2).
    pose proof (row_term (Dk 2 t) _ _ _ (Dk 2 t) (Dk 5 t) (Dk 8 t) B L0 L1 L2).
    pose proof (row_term (Dk 3 t) _ _ _ (Dk 0 t) (Dk 3 t) (Dk 6 t) B L3 L4 L5).
    pose proof (row_term (Dk 4 t) _ _ _ (Dk 1 t) (Dk 4 t) (Dk 7 t) B L3 L4 L5).
    pose proof (row_term (Dk 5 t) _ _ _ (Dk 2 t) (Dk 5 t) (Dk 8 t) B L3 L4 L5).
    pose proof (row_term (Dk 6 t) _ _ _ (Dk 0 t) (Dk 3 t) (Dk 6 t) B L6 L7 L8).
    pose proof (row_term (Dk 7 t) _ _ _ (Dk 1 t) (Dk 4 t) (Dk 7 t) B L6 L7 L8).
    pose proof (row_term (Dk 8 t) _ _ _ (Dk 2 t) (Dk 5 t) (Dk 8 t) B L6 L7 L8).
    lra.
  Qed.

  Theorem linear_F_unique : forall t, a <= t <= b -> forall k, (k < 9)%nat -> F1 k t = F2 k t.
  Proof.
    intros t Ht.
    assert (He : eF t = 0).
    { apply (gronwall_zero eF eFd a b (6 * B) Hab); try assumption.
      - intros u Hu. apply eF_derive. exact Hu.
      - intros u _. unfold eF. nra.
      - intros u Hu. apply eFd_le. exact Hu.
      - unfold eF, Dk. rewrite !Ha by lia. ring. }
    unfold eF in He.
    assert (Hz : forall x, 0 <= x * x) by (intros; nra).
    pose proof (Hz (Dk 0 t)); pose proof (Hz (Dk 1 t)); pose proof (Hz (Dk 2 t)); pose proof (Hz (Dk 3 t));
    pose proof (Hz (Dk 4 t)); pose proof (Hz (Dk 5 t)); pose proof (Hz (Dk 6 t)); pose proof (Hz (Dk 7 t));
    pose proof (Hz (Dk 8 t)).
    assert (Hsq : forall x, x * x = 0 -> x = 0) by (intros x Hx; nra).
    intros k Hk.
    assert (Hd0 : Dk k t = 0).
    { do 9 (destruct k as [|k]; [apply Hsq; lra|]). lia. }
    unfold Dk in Hd0. lra.
  Qed.
End LinearUnique.

(* two minerals, one velocity-gradient history *)
Theorem solution_F_independent_of_mineral
  (regime1 ph1 fb1 : Z) (n1 : nat) (ass1 : list Z) (frs1 Sd1 : list R) (p1 nn1 lam1 M1 : R) (sh1 : R -> R)
  (regime2 ph2 fb2 : Z) (n2 : nat) (ass2 : list Z) (frs2 Sd2 : list R) (p2 nn2 lam2 M2 : R) (sh2 : R -> R)
  (Lh : R -> list R) (y1 y2 : nat -> R -> R) (a b B : R) :
  a <= b ->
  (forall t, a <= t <= b -> exists out,
     @rhs NumR regime1 ph1 fb1 n1 ass1 frs1 (Lh t) (sh1 t) Sd1 p1 nn1 lam1 M1 (ylist n1 (fun j => y1 j t)) = Ok out) ->
  (forall t, a <= t <= b -> exists out,
     @rhs NumR regime2 ph2 fb2 n2 ass2 frs2 (Lh t) (sh2 t) Sd2 p2 nn2 lam2 M2 (ylist n2 (fun j => y2 j t)) = Ok out) ->
  (forall i t, (i < 9)%nat -> a <= t <= b ->
     is_derive (y1 i) t (f regime1 ph1 fb1 n1 ass1 frs1 Sd1 p1 nn1 lam1 M1 Lh sh1 t (fun j => y1 j t) i)) ->
  (forall i t, (i < 9)%nat -> a <= t <= b ->
     is_derive (y2 i) t (f regime2 ph2 fb2 n2 ass2 frs2 Sd2 p2 nn2 lam2 M2 Lh sh2 t (fun j => y2 j t) i)) ->
  (forall k t, (k < 9)%nat -> a <= t <= b -> Rabs (Lcomp Lh k t) <= B) ->
  (forall k, (k < 9)%nat -> y1 k a = y2 k a) ->
  forall t, a <= t <= b -> forall k, (k < 9)%nat -> y1 k t = y2 k t.
Proof.
  intros Hab Hok1 Hok2 Hs1 Hs2 HB Ha.
  apply (linear_F_unique y1 y2 (Lcomp Lh) a b B Hab); try assumption.
  - intros i j t Hi Hj Ht.
    apply (solution_F_block regime1 ph1 fb1 n1 ass1 frs1 Sd1 p1 nn1 lam1 M1 Lh sh1 y1 t (Hok1 t Ht)); try assumption.
    intros k Hk. apply Hs1; assumption.
  - intros i j t Hi Hj Ht.
    apply (solution_F_block regime2 ph2 fb2 n2 ass2 frs2 Sd2 p2 nn2 lam2 M2 Lh sh2 y2 t (Hok2 t Ht)); try assumption.
    intros k Hk. apply Hs2; assumption.
Qed.

(* split interval = whole interval: an exact solution on [a,c] continued by an exact solution on [c,b] that
   starts from its end value has, at b, the F of ANY exact solution on the whole of [a,b] *)
Theorem solution_F_split_equals_whole
  (regime ph fb : Z) (n : nat) (ass : list Z) (frs Sd : list R) (p nn lam M : R) (sh : R -> R)
  (Lh : R -> list R) (yw ya yb : nat -> R -> R) (a c b B : R) :
  a <= c <= b ->
  (forall t, a <= t <= b -> exists out,
     @rhs NumR regime ph fb n ass frs (Lh t) (sh t) Sd p nn lam M (ylist n (fun j => yw j t)) = Ok out) ->
  (forall t, a <= t <= c -> exists out,
     @rhs NumR regime ph fb n ass frs (Lh t) (sh t) Sd p nn lam M (ylist n (fun j => ya j t)) = Ok out) ->
  (forall t, c <= t <= b -> exists out,
     @rhs NumR regime ph fb n ass frs (Lh t) (sh t) Sd p nn lam M (ylist n (fun j => yb j t)) = Ok out) ->
  (forall i t, (i < 9)%nat -> a <= t <= b ->
     is_derive (yw i) t (f regime ph fb n ass frs Sd p nn lam M Lh sh t (fun j => yw j t) i)) ->
  (forall i t, (i < 9)%nat -> a <= t <= c ->
     is_derive (ya i) t (f regime ph fb n ass frs Sd p nn lam M Lh sh t (fun j => ya j t) i)) ->
  (forall i t, (i < 9)%nat -> c <= t <= b ->
     is_derive (yb i) t (f regime ph fb n ass frs Sd p nn lam M Lh sh t (fun j => yb j t) i)) ->
  (forall k t, (k < 9)%nat -> a <= t <= b -> Rabs (Lcomp Lh k t) <= B) ->
  (forall k, (k < 9)%nat -> ya k a = yw k a) ->
  (forall k, (k < 9)%nat -> yb k c = ya k c) ->
  forall k, (k < 9)%nat -> yb k b = yw k b.
Proof.
  intros [Hac Hcb] Hokw Hoka Hokb Hw Hya Hyb HB Ha Hc k Hk.
  assert (Hmid : forall k, (k < 9)%nat -> ya k c = yw k c).
  { intros k0 Hk0.
    apply (solution_F_independent_of_mineral regime ph fb n ass frs Sd p nn lam M sh regime ph fb n ass frs Sd p nn lam M sh
             Lh ya yw a c B Hac); try assumption; try lra.
    - intros t Ht. apply Hokw. lra.
    - intros i t Hi Ht. apply Hw; [exact Hi|lra].
    - intros k1 t Hk1 Ht. apply HB; [exact Hk1|lra]. }
  apply (solution_F_independent_of_mineral regime ph fb n ass frs Sd p nn lam M sh regime ph fb n ass frs Sd p nn lam M sh
           Lh yb yw c b B Hcb); try assumption; try lra.
  - intros t Ht. apply Hokw. lra.
  - intros i t Hi Ht. apply Hw; [exact Hi|lra].
  - intros k1 t Hk1 Ht. apply HB; [exact Hk1|lra].
  - intros k1 Hk1. rewrite Hc by exact Hk1. apply Hmid. exact Hk1.
Qed.

Lemma shear_L_bounded_proof : forall k t, (k < 9)%nat -> Rabs (Lcomp (fun _ => shear_L) k t) <= 1.
Proof.
  intros k t Hk. unfold Lcomp, shear_L.
  do 9 (destruct k as [|k]; [cbn [nth]; apply Rabs_le; lra|]). lia.
Qed.
