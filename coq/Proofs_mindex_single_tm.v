(* Proofs_mindex_single_tm.v -- value of the single-orientation index (1 + T) / 2 - th_0 for the
   triclinic and monoclinic theoretical densities, by kernel-checked interval arithmetic. *)
From Coq Require Import Reals ZArith List Bool Lra Lia.
From Interval Require Import Tactic.
From PV Require Import Num NumR Model_mindex Proofs_mindex Proofs_mindex_mass.
Import ListNotations.
Open Scope R_scope.

Definition single_value (th : list R) : R := (1 + rsum th) / 2 - nth 0 th 0.

Lemma first_bin_triclinic : nth 0 (map (trapz (g_first 1)) (seq 0 180)) 0 <= 1 / 100000.
Proof. cbn [seq map nth]. unfold trapz, g_first. edge_num. interval. Qed.

Lemma single_triclinic : Rabs (single_value (map (trapz (g_first 1)) (seq 0 180)) - 1) <= 1 / 10000.
Proof.
  unfold single_value. rewrite rsum_trapz. cbn [seq map rsum fold_right Nat.add nth].
  unfold trapz, g_first. edge_num. interval with (i_prec 40).
Qed.

Lemma first_bin_monoclinic : nth 0 (map (trapz (g_two 2 2 90)) (seq 0 180)) 0 <= 1 / 100000.
Proof. cbn [seq map nth]. unfold trapz. cbv [g_two Nat.leb g_first]. edge_num. interval. Qed.

Lemma single_monoclinic : Rabs (single_value (map (trapz (g_two 2 2 90)) (seq 0 180)) - 1) <= 1 / 10000.
Proof.
  unfold single_value. rewrite rsum_trapz. cbn [seq map rsum fold_right Nat.add nth].
  unfold trapz. cbv [g_two Nat.leb g_first g_second]. rewrite a_of_expand. edge_num.
  interval with (i_prec 40).
Qed.

(* tetragonal / hexagonal (their mass is NOT 1: Findings/C14_mass.v) *)
Lemma theory_tetragonal_nonneg : Forall (Rle 0) (map (trapz (g_two 4 8 45)) (seq 0 90)).
Proof.
  apply Forall_trapz_nonneg_upto. intros k Hk. apply g_two_nonneg; [lra|apply a4_bounds|cbn in Hk; lia].
Qed.
Lemma theory_hexagonal_nonneg : Forall (Rle 0) (map (trapz (g_two 6 12 30)) (seq 0 90)).
Proof.
  apply Forall_trapz_nonneg_upto. intros k Hk. apply g_two_nonneg; [lra|apply a6_bounds|cbn in Hk; lia].
Qed.
Lemma first_bin_tetragonal : nth 0 (map (trapz (g_two 4 8 45)) (seq 0 90)) 0 <= 1 / 10000.
Proof. cbn [seq map nth]. unfold trapz. cbv [g_two Nat.leb g_first]. edge_num. interval. Qed.
Lemma first_bin_hexagonal : nth 0 (map (trapz (g_two 6 12 30)) (seq 0 90)) 0 <= 1 / 10000.
Proof. cbn [seq map nth]. unfold trapz. cbv [g_two Nat.leb g_first]. edge_num. interval. Qed.
