(* Inst_voigt.v -- kernel-checked instance lemmas for pydrex.minerals.voigt_averages (tie T, C10).

   coq/gen/Gen_voigt.v is regenerated on every run from the real `voigt_averages` (translator/
   specs_tensors_glue.py: real Mineral / StiffnessTensors objects with symbolic contents, symbolic phase
   ordinals, the tensor kernels kept as calls of Gen_tensors).  Each lemma states that one generated
   configuration  k_voigt_a{A}_m{nm}_s{ns}_g{ng}  IS the hand-written list model Model_voigt.voigt_averages
   on the corresponding minerals -- for ALL phase ordinals (members and non-members of MineralPhase), all
   stiffness matrices, orientations, fractions and phase fractions; `flat_res` lays the list of result
   matrices out as the (ns, 6, 6) block the code returns, errors are compared as such.
   An edit of voigt_averages / StiffnessTensors.__iter__ changes Gen_voigt.v and these proofs stop compiling.
   This file: tactics, the one-mineral configurations and the validation branches; the two-mineral
   configurations are in Inst_voigt_a0 / _a1 / _a01 / _a10 (built in parallel). *)
From Coq Require Import Reals ZArith List Bool Lra Lia Arith.
From PV Require Import Num NumR Model_voigt Proofs_tensors_alg Proofs_tensors_rot Inst_tensors.
From PV.gen Require Import Gen_tensors Gen_voigt.
Import ListNotations.
Open Scope R_scope.

Notation RA := (arr NumR).

(* ---- the loop form and the generated k_rotate are the same array (Leibniz) ---- *)
Lemma mk_arr_nth_ext (l1 l2 : list R) n : length l1 = n -> length l2 = n ->
  (forall k, (k < n)%nat -> @mk_arr R 0 l1 k = @mk_arr R 0 l2 k) -> @mk_arr R 0 l1 = @mk_arr R 0 l2.
Proof.
  intros H1 H2 H. f_equal. apply (nth_ext _ _ 0 0); [congruence|].
  intros k Hk. apply H. lia.
Qed.

Lemma k_rotate_shape (T Q : RA) : exists l, @k_rotate NumR T Q = @mk_arr R 0 l /\ length l = 81%nat.
Proof. unfold k_rotate. eexists. split; reflexivity. Qed.

Lemma rotate4_eq (T Q : RA) : @rotate4 NumR T Q = @k_rotate NumR T Q.
Proof.
  destruct (k_rotate_shape T Q) as (l & E & Hl).
  pose proof (rotate4_is_k_rotate T Q) as H. rewrite E in *.
  unfold rotate4, tab. apply (mk_arr_nth_ext _ _ 81).
  - rewrite map_length, seq_length. reflexivity.
  - exact Hl.
  - intros k Hk.
    assert (Ek : k = (27 * (k / 27) + 9 * ((k / 9) mod 3) + 3 * ((k / 3) mod 3) + k mod 3)%nat /\
                 (k / 27 < 3)%nat /\ ((k / 9) mod 3 < 3)%nat /\ ((k / 3) mod 3 < 3)%nat /\ (k mod 3 < 3)%nat).
    { clear - Hk. do 81 (destruct k as [|k]; [ vm_compute; repeat split; lia | ]). exfalso; lia. }
    destruct Ek as (Ek & B1 & B2 & B3 & B4).
    specialize (H (k / 27) ((k / 9) mod 3) ((k / 3) mod 3) (k mod 3))%nat.
    unfold t4 in H. rewrite <- Ek in H. unfold rotate4, tab in H. apply H; assumption.
Qed.

(* ---- how a configuration of the generated code is presented to the list model ---- *)
(* arrays are functions: grain (i, n) of a (ns, g, 3, 3) block is the window of 9 entries at 9 (i g + n) *)
Definition win (O : RA) (off : nat) : RA := fun k => O (off + k)%nat.
Definition mk_min (ph : Z) (nattr nos nfs g : nat) (O Fr : RA) : @mineral NumR :=
  mkMineral ph nattr
    (map (fun i => map (fun n => win O (9 * (i * g + n))) (seq 0 g)) (seq 0 nos))
    (map (fun i => map (fun n => Fr (i * g + n)%nat) (seq 0 g)) (seq 0 nfs)).
(* the (ns, 6, 6) result block *)
Definition flat_res (r : res (list RA)) : res RA :=
  match r with Ok l => Ok (@mk_arr R 0 (flat_map (arr_to_list 36) l)) | Err e => Err e end.

(* ---- generic facts used to normalise the model side ---- *)
Lemma scale81_twice (t : RA) (f phi : R) :
  @scale81 NumR (@scale81 NumR t f) phi = @mk_arr R 0 (map (fun k => t k * f * phi) (seq 0 81)).
Proof. reflexivity. Qed.
Lemma add36_app (a b : RA) k : (k < 36)%nat -> @add36 NumR a b k = a k + b k.
Proof. intros H. unfold add36. rewrite tab_spec by exact H. reflexivity. Qed.
Lemma zeros36_app k : (k < 36)%nat -> @zeros36 NumR k = 0.
Proof. intros H. unfold zeros36. rewrite tab_spec by exact H. reflexivity. Qed.

(* an ordinal that is no member of MineralPhase indexes no stiffness tensor *)
Lemma grain_val_no_member (pt : list RA) asm (phis : list R) (m : @mineral NumR) i n :
  length pt = 2%nat -> m_phase m <> 0%Z -> m_phase m <> 1%Z ->
  @grain_val NumR pt asm phis m i n = Err IndexError.
Proof.
  intros Hl N0 N1. unfold grain_val.
  destruct (Z.ltb (m_phase m) 0) eqn:E; [reflexivity|]. apply Z.ltb_ge in E.
  assert (H : nth_error pt (Z.to_nat (m_phase m)) = None) by (apply nth_error_None; lia).
  rewrite H. reflexivity.
Qed.

Lemma cons_eq3 {X} (a b : X) l1 l2 : a = b -> l1 = l2 -> a :: l1 = b :: l2.
Proof. intros -> ->; reflexivity. Qed.

(* phases: one three-way split per mineral ordinal *)
Ltac split_phase ph :=
  let E0 := fresh "E" in let E1 := fresh "E" in
  destruct (Z.eqb ph 0) eqn:E0;
  [ apply Z.eqb_eq in E0; subst ph
  | destruct (Z.eqb ph 1) eqn:E1;
    [ apply Z.eqb_eq in E1; subst ph | apply Z.eqb_neq in E0; apply Z.eqb_neq in E1 ] ].

(* one grain's contribution in the shape the generated code has it *)
Lemma grain_term_gen (C4 o : RA) (f phi : R) :
  @grain_term NumR C4 o f phi =
  @k_elastic_tensor_to_voigt NumR
    (@mk_arr R 0 (map (fun k => @k_rotate NumR C4 (@transpose3 NumR o) k * f * phi) (seq 0 81))).
Proof. unfold grain_term. rewrite rotate4_eq, scale81_twice. reflexivity. Qed.

Ltac lift_let1 :=
  match goal with
  | |- (let x := ?t in @?f x) = ?r => let y := fresh "c" in pose (y := t); change (f y = r); cbv beta
  end.

(* evaluation of the MODEL side only (the generated side keeps its lets) *)
Ltac model_eval :=
  lazymatch goal with |- ?l = ?r =>
    let r' := eval cbv [voigt_averages mk_min m_ngrains m_orients m_fracs m_phase forallb negb andb Nat.eqb length map seq
       all_ok snapshot_avg mineral_step grain_step loop arr_to_list flat_res Nat.add Nat.mul] in r in
    change (l = r') end.

(* grain_val for a member ordinal, by computation (grain_term stays folded) *)
Ltac grain_eval :=
  lazymatch goal with |- ?l = ?r =>
    let r' := eval cbv [grain_val m_phase m_orients m_fracs Z.ltb Z.compare Z.to_nat Pos.to_nat Pos.iter_op Nat.add nth nth_error index_of
       Z.eqb Pos.eqb flat_res all_ok] in r in
    change (l = r') end.

(* an ordinal that is still a variable is no member: its grain_val is Err IndexError *)
Ltac no_members :=
  repeat match goal with
  | |- context [@grain_val NumR ?pt ?asm ?phis (mkMineral ?ph ?a ?b ?c) ?i ?n] =>
      is_var ph;
      rewrite (grain_val_no_member pt asm phis (mkMineral ph a b c) i n)
        by (try reflexivity; cbn [m_phase]; assumption)
  end.

(* An Ok leaf: the model side is brought into the compact form
     Ok (mk_arr 0 [G1 k + G2 k + ... | k < 36, per snapshot]),
     Gj = k_elastic_tensor_to_voigt (mk_arr 0 (map (fun k => k_rotate C (transpose3 o) k * f * phi) (seq 0 81)))
   and the generated side (its call results are local definitions) is the same term written out:
   the kernel's conversion closes the goal *)
Ltac lt36 := apply Nat.ltb_lt; reflexivity.
Ltac ok_leaf :=
  lazymatch goal with |- ?l = ?r =>
    let E := fresh "E" in
    eassert (E : r = _)
      by (rewrite ?grain_term_gen; cbv [flat_map app]; cbv beta;
          rewrite ?add36_app, ?zeros36_app by lt36; rewrite ?Rplus_0_l; reflexivity);
    etransitivity; [ | symmetry; exact E ]; reflexivity
  end.

Ltac rhs_no_members :=
  lazymatch goal with
  | |- ?l = ?r =>
      lazymatch r with
      | context [@grain_val NumR _ _ _ (mkMineral ?ph _ _ _) _ _] =>
          let E := fresh "E" in
          eassert (E : r = _) by (no_members; reflexivity);
          etransitivity; [ | symmetry; exact E ]; clear E
      | _ => idtac
      end
  end.

Ltac leaf := rhs_no_members; grain_eval; first [ reflexivity | ok_leaf ].

Ltac voigt_tac :=
  model_eval;
  repeat match goal with
  | |- context [Z.eqb ?ph 0] => is_var ph; split_phase ph
  end;
  leaf.

(* ---- one mineral ---- *)
Lemma voigt_inst_a0_m1_s1_g1 (ph0 : Z) (phis Sol Sen O0 F0 : RA) :
  @k_voigt_a0_m1_s1_g1 NumR ph0 phis Sol Sen O0 F0 =
  flat_res (@voigt_averages NumR [mk_min ph0 1 1 1 1 O0 F0] [0%Z] (arr_to_list 1 phis) [Sol; Sen]).
Proof. cbv beta delta [k_voigt_a0_m1_s1_g1]. voigt_tac. Qed.

Lemma voigt_inst_a0_m1_s2_g1 (ph0 : Z) (phis Sol Sen O0 F0 : RA) :
  @k_voigt_a0_m1_s2_g1 NumR ph0 phis Sol Sen O0 F0 =
  flat_res (@voigt_averages NumR [mk_min ph0 1 2 2 1 O0 F0] [0%Z] (arr_to_list 1 phis) [Sol; Sen]).
Proof. cbv beta delta [k_voigt_a0_m1_s2_g1]. voigt_tac. Qed.

Lemma voigt_inst_a0_m1_s1_g2 (ph0 : Z) (phis Sol Sen O0 F0 : RA) :
  @k_voigt_a0_m1_s1_g2 NumR ph0 phis Sol Sen O0 F0 =
  flat_res (@voigt_averages NumR [mk_min ph0 2 1 1 2 O0 F0] [0%Z] (arr_to_list 1 phis) [Sol; Sen]).
Proof. cbv beta delta [k_voigt_a0_m1_s1_g2]. voigt_tac. Qed.

Lemma voigt_inst_a1_m1_s1_g1 (ph0 : Z) (phis Sol Sen O0 F0 : RA) :
  @k_voigt_a1_m1_s1_g1 NumR ph0 phis Sol Sen O0 F0 =
  flat_res (@voigt_averages NumR [mk_min ph0 1 1 1 1 O0 F0] [1%Z] (arr_to_list 1 phis) [Sol; Sen]).
Proof. cbv beta delta [k_voigt_a1_m1_s1_g1]. voigt_tac. Qed.

Lemma voigt_inst_a1_m1_s2_g1 (ph0 : Z) (phis Sol Sen O0 F0 : RA) :
  @k_voigt_a1_m1_s2_g1 NumR ph0 phis Sol Sen O0 F0 =
  flat_res (@voigt_averages NumR [mk_min ph0 1 2 2 1 O0 F0] [1%Z] (arr_to_list 1 phis) [Sol; Sen]).
Proof. cbv beta delta [k_voigt_a1_m1_s2_g1]. voigt_tac. Qed.

Lemma voigt_inst_a1_m1_s1_g2 (ph0 : Z) (phis Sol Sen O0 F0 : RA) :
  @k_voigt_a1_m1_s1_g2 NumR ph0 phis Sol Sen O0 F0 =
  flat_res (@voigt_averages NumR [mk_min ph0 2 1 1 2 O0 F0] [1%Z] (arr_to_list 1 phis) [Sol; Sen]).
Proof. cbv beta delta [k_voigt_a1_m1_s1_g2]. voigt_tac. Qed.

Lemma voigt_inst_a01_m1_s1_g1 (ph0 : Z) (phis Sol Sen O0 F0 : RA) :
  @k_voigt_a01_m1_s1_g1 NumR ph0 phis Sol Sen O0 F0 =
  flat_res (@voigt_averages NumR [mk_min ph0 1 1 1 1 O0 F0] [0%Z; 1%Z] (arr_to_list 2 phis) [Sol; Sen]).
Proof. cbv beta delta [k_voigt_a01_m1_s1_g1]. voigt_tac. Qed.

Lemma voigt_inst_a01_m1_s2_g1 (ph0 : Z) (phis Sol Sen O0 F0 : RA) :
  @k_voigt_a01_m1_s2_g1 NumR ph0 phis Sol Sen O0 F0 =
  flat_res (@voigt_averages NumR [mk_min ph0 1 2 2 1 O0 F0] [0%Z; 1%Z] (arr_to_list 2 phis) [Sol; Sen]).
Proof. cbv beta delta [k_voigt_a01_m1_s2_g1]. voigt_tac. Qed.

Lemma voigt_inst_a01_m1_s1_g2 (ph0 : Z) (phis Sol Sen O0 F0 : RA) :
  @k_voigt_a01_m1_s1_g2 NumR ph0 phis Sol Sen O0 F0 =
  flat_res (@voigt_averages NumR [mk_min ph0 2 1 1 2 O0 F0] [0%Z; 1%Z] (arr_to_list 2 phis) [Sol; Sen]).
Proof. cbv beta delta [k_voigt_a01_m1_s1_g2]. voigt_tac. Qed.

Lemma voigt_inst_a10_m1_s1_g1 (ph0 : Z) (phis Sol Sen O0 F0 : RA) :
  @k_voigt_a10_m1_s1_g1 NumR ph0 phis Sol Sen O0 F0 =
  flat_res (@voigt_averages NumR [mk_min ph0 1 1 1 1 O0 F0] [1%Z; 0%Z] (arr_to_list 2 phis) [Sol; Sen]).
Proof. cbv beta delta [k_voigt_a10_m1_s1_g1]. voigt_tac. Qed.

Lemma voigt_inst_a10_m1_s2_g1 (ph0 : Z) (phis Sol Sen O0 F0 : RA) :
  @k_voigt_a10_m1_s2_g1 NumR ph0 phis Sol Sen O0 F0 =
  flat_res (@voigt_averages NumR [mk_min ph0 1 2 2 1 O0 F0] [1%Z; 0%Z] (arr_to_list 2 phis) [Sol; Sen]).
Proof. cbv beta delta [k_voigt_a10_m1_s2_g1]. voigt_tac. Qed.

Lemma voigt_inst_a10_m1_s1_g2 (ph0 : Z) (phis Sol Sen O0 F0 : RA) :
  @k_voigt_a10_m1_s1_g2 NumR ph0 phis Sol Sen O0 F0 =
  flat_res (@voigt_averages NumR [mk_min ph0 2 1 1 2 O0 F0] [1%Z; 0%Z] (arr_to_list 2 phis) [Sol; Sen]).
Proof. cbv beta delta [k_voigt_a10_m1_s1_g2]. voigt_tac. Qed.

(* ---- validation branches, shapes that raise ---- *)
Lemma voigt_inst_bad_ngrains (ph0 ph1 : Z) (phis Sol Sen O0 F0 O1 F1 : RA) :
  @k_voigt_bad_ngrains NumR ph0 ph1 phis Sol Sen O0 F0 O1 F1 =
  flat_res (@voigt_averages NumR [mk_min ph0 1 1 1 1 O0 F0; mk_min ph1 2 1 1 2 O1 F1] [0%Z; 1%Z] (arr_to_list 2 phis) [Sol; Sen]).
Proof. cbv beta delta [k_voigt_bad_ngrains]. voigt_tac. Qed.

Lemma voigt_inst_bad_osteps (ph0 ph1 : Z) (phis Sol Sen O0 F0 O1 F1 : RA) :
  @k_voigt_bad_osteps NumR ph0 ph1 phis Sol Sen O0 F0 O1 F1 =
  flat_res (@voigt_averages NumR [mk_min ph0 1 1 1 1 O0 F0; mk_min ph1 1 2 1 1 O1 F1] [0%Z; 1%Z] (arr_to_list 2 phis) [Sol; Sen]).
Proof. cbv beta delta [k_voigt_bad_osteps]. voigt_tac. Qed.

Lemma voigt_inst_bad_fsteps (ph0 ph1 : Z) (phis Sol Sen O0 F0 O1 F1 : RA) :
  @k_voigt_bad_fsteps NumR ph0 ph1 phis Sol Sen O0 F0 O1 F1 =
  flat_res (@voigt_averages NumR [mk_min ph0 1 1 1 1 O0 F0; mk_min ph1 1 1 2 1 O1 F1] [0%Z; 1%Z] (arr_to_list 2 phis) [Sol; Sen]).
Proof. cbv beta delta [k_voigt_bad_fsteps]. voigt_tac. Qed.

Lemma voigt_inst_bad_fsteps_first (ph0 : Z) (phis Sol Sen O0 F0 : RA) :
  @k_voigt_bad_fsteps_first NumR ph0 phis Sol Sen O0 F0 =
  flat_res (@voigt_averages NumR [mk_min ph0 1 1 2 1 O0 F0] [0%Z] (arr_to_list 1 phis) [Sol; Sen]).
Proof. cbv beta delta [k_voigt_bad_fsteps_first]. voigt_tac. Qed.

Lemma voigt_inst_no_minerals (phis Sol Sen : RA) :
  @k_voigt_no_minerals NumR phis Sol Sen =
  flat_res (@voigt_averages NumR [] [0%Z] (arr_to_list 1 phis) [Sol; Sen]).
Proof. cbv beta delta [k_voigt_no_minerals]. voigt_tac. Qed.

Lemma voigt_inst_ngrains_attr_larger (ph0 : Z) (phis Sol Sen O0 F0 : RA) :
  @k_voigt_ngrains_attr_larger NumR ph0 phis Sol Sen O0 F0 =
  flat_res (@voigt_averages NumR [mk_min ph0 2 1 1 1 O0 F0] [0%Z] (arr_to_list 1 phis) [Sol; Sen]).
Proof. cbv beta delta [k_voigt_ngrains_attr_larger]. voigt_tac. Qed.
