(* Inst_minerals_drv.v -- kernel-checked instance lemmas for the DRIVER around the integrator (tie T, round 5).

   coq/gen/Gen_minerals.v also contains, regenerated from the current source on every run
   (translator/specs_minerals.py, "the driver around the integrator"):
     k_lsoda_args_n{n}        what Mineral.update_orientations constructs scipy's LSODA with
                              (regime / phase / fabric of the mineral are symbolic ordinals in the driver traces:
                              the lemmas hold for ALL of them, i.e. the driver does not branch on them; the traced
                              mineral carries an older DECOY snapshot, so reading snapshot [0] instead of [-1] shows)
     k_lsoda_args_user_n1     ... when the caller passes atol / rtol / first_step / max_step / min_step
     k_update_loop_n{n}_m{m}  the whole update with an integrator that takes m steps (state vectors
                              y1..ym) and whose step `fail` fails (or only reports a message, -fail)
     k_update_all_n{n}_k{K}   pydrex.update_all on K minerals, integrator of mineral `fail` failing
     k_init_default_n{n}, k_init_user_n{n}   Mineral.__post_init__
   The lemmas below state that each coincides with the hand-written list model of Model_minerals.v
   (lsoda_problem_of, solver_loop / update_steps, bulk_update / bulk_y0, init_default / init_user)
   for ALL inputs of the right length.  No tactic mentions a generated variable name. *)
From Coq Require Import Reals ZArith List Bool Lra Lia.
From PV Require Import Num NumR Model_core Model_minerals Inst_core Inst_minerals.
From PV.gen Require Import Gen_core Gen_minerals.
Import ListNotations.
Open Scope R_scope.

(* ================= LSODA's constructor arguments ================= *)
Definition problem_view (P : @lsoda_problem NumR) : R * arr R * R * arr R * R * R :=
  (lp_t0 P, A (lp_y0 P), lp_tb P, A (lp_atol P), lp_rtol P, lp_first P).

Ltac args_tac :=
  cbv [problem_view lsoda_problem_of y_start lp_t0 lp_y0 lp_tb lp_atol lp_rtol lp_first sn_o sn_f
       chunks9 firstn skipn concat app map c_1em6 c_1em4 c_1em1 mk_arr nth];
  first [ reflexivity
        | fail "the generated LSODA constructor arguments differ from Model_minerals.lsoda_problem_of" ].

Lemma lsoda_args_inst_1 (regime ph fb : Z) (Fd o f : RL) (t0 t1 : R) :
  length Fd = 9%nat -> length o = 9%nat -> length f = 1%nat ->
  @k_lsoda_args_n1 NumR regime ph fb (A Fd) (A o) (A f) t0 t1
  = problem_view (@lsoda_problem_of NumR Fd {| sn_o := @chunks9 NumR o 1; sn_f := f |} t0 t1).
Proof. intros HF Ho Hf. explode Fd HF. explode o Ho. explode f Hf. unfold k_lsoda_args_n1. args_tac. Qed.
Lemma lsoda_args_inst_2 (regime ph fb : Z) (Fd o f : RL) (t0 t1 : R) :
  length Fd = 9%nat -> length o = 18%nat -> length f = 2%nat ->
  @k_lsoda_args_n2 NumR regime ph fb (A Fd) (A o) (A f) t0 t1
  = problem_view (@lsoda_problem_of NumR Fd {| sn_o := @chunks9 NumR o 2; sn_f := f |} t0 t1).
Proof. intros HF Ho Hf. explode Fd HF. explode o Ho. explode f Hf. unfold k_lsoda_args_n2. args_tac. Qed.
Lemma lsoda_args_inst_3 (regime ph fb : Z) (Fd o f : RL) (t0 t1 : R) :
  length Fd = 9%nat -> length o = 27%nat -> length f = 3%nat ->
  @k_lsoda_args_n3 NumR regime ph fb (A Fd) (A o) (A f) t0 t1
  = problem_view (@lsoda_problem_of NumR Fd {| sn_o := @chunks9 NumR o 3; sn_f := f |} t0 t1).
Proof. intros HF Ho Hf. explode Fd HF. explode o Ho. explode f Hf. unfold k_lsoda_args_n3. args_tac. Qed.

(* the caller's own tolerances / step sizes reach LSODA unchanged; t0, y0, t_bound as before *)
Lemma lsoda_args_user_inst_1 (Fd o f : RL) (t0 t1 ua ur uf umx umn : R) :
  length Fd = 9%nat -> length o = 9%nat -> length f = 1%nat ->
  @k_lsoda_args_user_n1 NumR (A Fd) (A o) (A f) t0 t1 ua ur uf umx umn
  = (t0, A (@y_start NumR Fd {| sn_o := @chunks9 NumR o 1; sn_f := f |}), t1, ua, ur, uf, umx, umn).
Proof.
  intros HF Ho Hf. explode Fd HF. explode o Ho. explode f Hf. unfold k_lsoda_args_user_n1.
  cbv [y_start sn_o sn_f chunks9 firstn skipn concat app mk_arr nth]. reflexivity.
Qed.

(* ================= the solver loop ================= *)
(* what the stand-in integrator of the trace reports at step j (1-based): a failure when fail = j *)
Fixpoint loop_steps_from (j : nat) (fail : Z) (ys : list RL) : list (res RL) :=
  match ys with
  | [] => []
  | y :: ys' => (if Z.eqb fail (Z.of_nat j) then Err OtherError else Ok y) :: loop_steps_from (S j) fail ys'
  end.
Definition loop_steps := loop_steps_from 1.

Definition upd_view (r : res RL * @history NumR) : res (arr R * arr R * arr R) :=
  match fst r with
  | Err e => Err e
  | Ok Fb => let s := @last_snapshot NumR (snd r) in Ok (A Fb, A (concat (sn_o s)), A (sn_f s))
  end.

Lemma upd_view_ok n chi (s0 : @snapshot NumR) (y : RL) :
  upd_view (@update_history NumR n chi [s0] (Ok y))
  = Ok (let '(Fb, s) := @update NumR n chi s0 y in (A Fb, A (concat (sn_o s)), A (sn_f s))).
Proof.
  unfold upd_view, update_history. change (@last_snapshot NumR [s0]) with s0.
  destruct (@update NumR n chi s0 y) as [Fb s]. cbn [fst snd]. unfold last_snapshot.
  change ([s0] ++ [s]) with [s0; s]. reflexivity.
Qed.

Ltac zcases :=
  repeat match goal with
  | |- context [Z.eqb ?a ?b] => destruct (Z.eqb a b) eqn:?
  end.

(* the `let '(..) := k_extract_vars / k_apply_gbs ... in` chains: name the results (the calls on the
   vectors of earlier solver steps are dead code; the live ones occur on both sides) *)
Ltac open_lets :=
  repeat match goal with
  | |- context [match ?c with (_, _) => _ end] =>
      lazymatch c with (_, _) => fail | _ => idtac end;
      destruct c as [? ?]; cbv beta iota
  end.

Ltac loop_tac upd_eq kupd :=
  cbv [loop_steps loop_steps_from Z.of_nat Pos.of_succ_nat Pos.succ];
  zcases; cbv [solver_loop update_steps];
  first [ (cbv [upd_view update_history fst]; reflexivity)
        | (rewrite upd_view_ok; (etransitivity; [ | exact (f_equal Ok upd_eq) ]); unfold kupd;
           open_lets; reflexivity)
        | fail "the generated solver loop differs from Model_minerals.update_steps (update of the LAST vector, start-of-update reference, Err on a failing step)" ].

(* m solver steps, step `fail` failing: the stored snapshot and the returned F are those of
   Model_minerals.update applied to the LAST state vector (earlier vectors are dead code), the sliding
   reference is the snapshot the update started from; a failure stores nothing *)
Lemma update_loop_inst_1_2 (fail regime ph fb : Z) (chi : R) (prev pf y1 y2 : RL) :
  length prev = 9%nat -> length y2 = 19%nat ->
  @k_update_loop_n1_m2 NumR fail regime ph fb chi (A prev) (A y1) (A y2)
  = upd_view (@update_steps NumR 1 chi [{| sn_o := @chunks9 NumR prev 1; sn_f := pf |}] (loop_steps fail [y1; y2])).
Proof. intros Hp Hy. unfold k_update_loop_n1_m2. loop_tac (update_inst_1 chi prev pf y2 Hp Hy) (@k_update_n1). Qed.
Lemma update_loop_inst_1_3 (fail regime ph fb : Z) (chi : R) (prev pf y1 y2 y3 : RL) :
  length prev = 9%nat -> length y3 = 19%nat ->
  @k_update_loop_n1_m3 NumR fail regime ph fb chi (A prev) (A y1) (A y2) (A y3)
  = upd_view (@update_steps NumR 1 chi [{| sn_o := @chunks9 NumR prev 1; sn_f := pf |}] (loop_steps fail [y1; y2; y3])).
Proof. intros Hp Hy. unfold k_update_loop_n1_m3. loop_tac (update_inst_1 chi prev pf y3 Hp Hy) (@k_update_n1). Qed.
Lemma update_loop_inst_2_2 (fail regime ph fb : Z) (chi : R) (prev pf y1 y2 : RL) :
  length prev = 18%nat -> length y2 = 29%nat ->
  @k_update_loop_n2_m2 NumR fail regime ph fb chi (A prev) (A y1) (A y2)
  = upd_view (@update_steps NumR 2 chi [{| sn_o := @chunks9 NumR prev 2; sn_f := pf |}] (loop_steps fail [y1; y2])).
Proof. intros Hp Hy. unfold k_update_loop_n2_m2. loop_tac (update_inst_2 chi prev pf y2 Hp Hy) (@k_update_n2). Qed.
Lemma update_loop_inst_3_2 (fail regime ph fb : Z) (chi : R) (prev pf y1 y2 : RL) :
  length prev = 27%nat -> length y2 = 39%nat ->
  @k_update_loop_n3_m2 NumR fail regime ph fb chi (A prev) (A y1) (A y2)
  = upd_view (@update_steps NumR 3 chi [{| sn_o := @chunks9 NumR prev 3; sn_f := pf |}] (loop_steps fail [y1; y2])).
Proof. intros Hp Hy. unfold k_update_loop_n3_m2. loop_tac (update_inst_3 chi prev pf y2 Hp Hy) (@k_update_n3). Qed.

(* ================= update_all ================= *)
Definition hist1 (n : nat) (o f : RL) : @history NumR := [{| sn_o := @chunks9 NumR o n; sn_f := f |}].
Definition snap3 (h : @history NumR) (y0 : RL) : arr R * arr R * arr R :=
  let s := @last_snapshot NumR h in (A y0, A (concat (sn_o s)), A (sn_f s)).

Definition bulk_view2 (Fd : RL) (hs0 : list (@history NumR)) (r : res RL * list (@history NumR))
  : res (arr R * arr R * arr R * arr R * arr R * arr R * arr R) :=
  match fst r with
  | Err e => Err e
  | Ok Fb =>
      match snd r, @bulk_y0 NumR Fd hs0 with
      | [ha; hb], [ya; yb] =>
          let '(a1, a2, a3) := snap3 ha ya in let '(b1, b2, b3) := snap3 hb yb in
          Ok (A Fb, a1, a2, a3, b1, b2, b3)
      | _, _ => Err OtherError
      end
  end.
Definition bulk_view3 (Fd : RL) (hs0 : list (@history NumR)) (r : res RL * list (@history NumR))
  : res (arr R * arr R * arr R * arr R * arr R * arr R * arr R * arr R * arr R * arr R) :=
  match fst r with
  | Err e => Err e
  | Ok Fb =>
      match snd r, @bulk_y0 NumR Fd hs0 with
      | [ha; hb; hc], [ya; yb; yc] =>
          let '(a1, a2, a3) := snap3 ha ya in let '(b1, b2, b3) := snap3 hb yb in
          let '(c1, c2, c3) := snap3 hc yc in
          Ok (A Fb, a1, a2, a3, b1, b2, b3, c1, c2, c3)
      | _, _ => Err OtherError
      end
  end.

(* name every call result, in the goal and in the posed instance lemmas alike *)
Ltac open_lets_all :=
  repeat match goal with
  | |- context [match ?c with (_, _) => _ end] =>
      lazymatch c with (_, _) => fail | _ => idtac end;
      let x := fresh "x" in remember c as x in *; destruct x as [? ?]; cbv beta iota in *
  end.

Ltac bulk_norm :=
  cbv [bulk_view2 bulk_view3 bulk_update update_all update_history bulk_y0 snap3 hist1 map last_snapshot last
       y_start fst snd app].

Ltac bulk_tac :=
  cbv [loop_steps loop_steps_from Z.of_nat Pos.of_succ_nat Pos.succ];
  zcases; bulk_norm;
  repeat match goal with
  | |- context [@update NumR ?n ?chi ?s ?y] =>
      let u := fresh "u" in remember (@update NumR n chi s y) as u in *; destruct u as [? ?]; bulk_norm
  end;
  try reflexivity;
  open_lets_all;
  repeat match goal with H : (_, _, _) = (_, _, _) |- _ => injection H as -> -> -> end;
  repeat match goal with H : (_, _) = (_, _) |- _ => clear H end;
  cbv [sn_o sn_f chunks9 firstn skipn concat app mk_arr nth];
  first [ reflexivity
        | fail "the generated update_all differs from Model_minerals.bulk_update / bulk_y0 (same starting F for every mineral, value = F of the last)" ].

Lemma update_all_inst_1_2 (fail regime ph fb : Z) (chi : R) (Fd o1 f1 o2 f2 y1 y2 : RL) :
  length Fd = 9%nat -> length o1 = 9%nat -> length f1 = 1%nat -> length o2 = 9%nat -> length f2 = 1%nat ->
  length y1 = 19%nat -> length y2 = 19%nat ->
  @k_update_all_n1_k2 NumR fail regime ph fb chi (A Fd) (A o1) (A f1) (A o2) (A f2) (A y1) (A y2)
  = bulk_view2 Fd [hist1 1 o1 f1; hist1 1 o2 f2]
      (@bulk_update NumR 1 chi [hist1 1 o1 f1; hist1 1 o2 f2] (loop_steps fail [y1; y2])).
Proof.
  intros HF Ho1 Hf1 Ho2 Hf2 Hy1 Hy2.
  pose proof (update_inst_1 chi o1 f1 y1 Ho1 Hy1) as H1. pose proof (update_inst_1 chi o2 f2 y2 Ho2 Hy2) as H2.
  unfold k_update_n1 in H1, H2. unfold k_update_all_n1_k2.
  explode Fd HF. explode o1 Ho1. explode f1 Hf1. explode o2 Ho2. explode f2 Hf2.
  bulk_tac.
Qed.

Lemma update_all_inst_1_3 (fail regime ph fb : Z) (chi : R) (Fd o1 f1 o2 f2 o3 f3 y1 y2 y3 : RL) :
  length Fd = 9%nat -> length o1 = 9%nat -> length f1 = 1%nat -> length o2 = 9%nat -> length f2 = 1%nat ->
  length o3 = 9%nat -> length f3 = 1%nat -> length y1 = 19%nat -> length y2 = 19%nat -> length y3 = 19%nat ->
  @k_update_all_n1_k3 NumR fail regime ph fb chi (A Fd) (A o1) (A f1) (A o2) (A f2) (A o3) (A f3) (A y1) (A y2) (A y3)
  = bulk_view3 Fd [hist1 1 o1 f1; hist1 1 o2 f2; hist1 1 o3 f3]
      (@bulk_update NumR 1 chi [hist1 1 o1 f1; hist1 1 o2 f2; hist1 1 o3 f3] (loop_steps fail [y1; y2; y3])).
Proof.
  intros HF Ho1 Hf1 Ho2 Hf2 Ho3 Hf3 Hy1 Hy2 Hy3.
  pose proof (update_inst_1 chi o1 f1 y1 Ho1 Hy1) as H1. pose proof (update_inst_1 chi o2 f2 y2 Ho2 Hy2) as H2.
  pose proof (update_inst_1 chi o3 f3 y3 Ho3 Hy3) as H3.
  unfold k_update_n1 in H1, H2, H3. unfold k_update_all_n1_k3.
  explode Fd HF. explode o1 Ho1. explode f1 Hf1. explode o2 Ho2. explode f2 Hf2. explode o3 Ho3. explode f3 Hf3.
  bulk_tac.
Qed.

(* ================= Mineral.__post_init__ ================= *)
(* default: the oracle's matrices as they are, volume fractions np.full(n, 1.0 / n).  For n = 1, 2 the
   binary64 quotient 1.0 / n is exact and the generated literal IS the model's 1 / n; for n = 3 the generated
   literal is the binary64 value of 1.0 / 3 (fl13), which is not the real 1/3: the lemma states it as it is,
   with the distance to 1/3. *)
Lemma init_default_inst_1 (R0 : RL) : length R0 = 9%nat ->
  @k_init_default_n1 NumR (A R0)
  = let s := @init_default NumR 1 (@chunks9 NumR R0 1) in (A (concat (sn_o s)), A (sn_f s)).
Proof.
  intros H. explode R0 H. unfold k_init_default_n1.
  cbv [init_default sn_o sn_f chunks9 firstn skipn concat app repeat Z.of_nat Pos.of_succ_nat].
  apply pair_eq; apply arr_eq; [reflexivity|]. apply cons_eq; [numR; field | reflexivity].
Qed.
Lemma init_default_inst_2 (R0 : RL) : length R0 = 18%nat ->
  @k_init_default_n2 NumR (A R0)
  = let s := @init_default NumR 2 (@chunks9 NumR R0 2) in (A (concat (sn_o s)), A (sn_f s)).
Proof.
  intros H. explode R0 H. unfold k_init_default_n2.
  cbv [init_default sn_o sn_f chunks9 firstn skipn concat app repeat Z.of_nat Pos.of_succ_nat Pos.succ].
  apply pair_eq; apply arr_eq; [reflexivity|]. repeat (apply cons_eq; [numR; field | ]). reflexivity.
Qed.
Definition fl13 : R := 6004799503160661 / 18014398509481984.
Lemma fl13_close : Rabs (fl13 - 1 / 3) <= / 18014398509481984.
Proof. unfold fl13. apply Rabs_le. lra. Qed.
Lemma init_default_inst_3 (R0 : RL) : length R0 = 27%nat ->
  @k_init_default_n3 NumR (A R0) = (A R0, A [fl13; fl13; fl13]).
Proof.
  intros H. unfold k_init_default_n3.
  apply pair_eq; [reflexivity|]. apply arr_eq. unfold fl13. numR. reflexivity.
Qed.

(* user-supplied initial texture: stored exactly as given *)
Lemma init_user_inst_1 (o f : RL) : @k_init_user_n1 NumR (A o) (A f) = (A o, A f).
Proof. reflexivity. Qed.
Lemma init_user_inst_2 (o f : RL) : @k_init_user_n2 NumR (A o) (A f) = (A o, A f).
Proof. reflexivity. Qed.
Lemma init_user_inst_3 (o f : RL) : @k_init_user_n3 NumR (A o) (A f) = (A o, A f).
Proof. reflexivity. Qed.
