(* Proofs_npz.v -- lemmas about the archive model of Mineral.save/load/from_file.
   Everything here is over string / list / Z / nat: no axioms. *)
From Coq Require Import ZArith List Bool String Ascii Arith Lia.
From PV Require Import Num Model_npz.
Import ListNotations.
Local Open Scope string_scope.

(* ------------------------------------------------------------------------- *)
(* names                                                                     *)
(* ------------------------------------------------------------------------- *)
Lemma key_injective b b' p p' : key b p = key b' p' -> b = b' /\ p = p'.
Proof. destruct b, b'; cbn; intros H; inversion H; auto. Qed.

Lemma member_injective b b' pf pf' : member b pf = member b' pf' -> b = b' /\ pf = pf'.
Proof.
  destruct pf as [p|], pf' as [p'|], b, b'; cbn; intros H; inversion H; subst; auto.
Qed.

(* a postfix key is never a plain subscript, nor the member name of a whole-file save,
   whatever the postfix is (empty, containing '_' or '.', ending in ".npy", ...) *)
Lemma key_not_plain b b' p : key b p <> base_name b'.
Proof. destruct b, b'; cbn; intros H; inversion H. Qed.

Lemma key_not_whole_member b b' p : key b p <> member b' None.
Proof. destruct b, b'; cbn; intros H; inversion H. Qed.

Lemma plain_not_member b b' pf : base_name b <> member b' pf.
Proof. destruct pf as [p|], b, b'; cbn; intros H; inversion H. Qed.

Lemma strip_whole_member b : strip_npy (member b None) = base_name b.
Proof. destruct b; reflexivity. Qed.

Lemma whole_member_is_plain_npy b : member b None = base_name b ++ ".npy".
Proof. reflexivity. Qed.

Lemma item_postfix b p : item b (Some p) = member b (Some p).
Proof. reflexivity. Qed.

Lemma save_target_npz fn pf : ends_with ".npz" fn = true -> save_target fn pf = fn.
Proof. intros H; destruct pf; cbn [save_target]; [reflexivity | rewrite H; reflexivity]. Qed.

(* ------------------------------------------------------------------------- *)
(* lists                                                                     *)
(* ------------------------------------------------------------------------- *)
Lemma find_app_ {A} (f : A -> bool) (a b : list A) :
  find f (a ++ b) = match find f a with Some x => Some x | None => find f b end.
Proof. induction a as [|x a IH]; cbn; [reflexivity|]. destruct (f x); [reflexivity | exact IH]. Qed.

Lemma find_none_ {A} (f : A -> bool) (l : list A) :
  (forall x, In x l -> f x = false) -> find f l = None.
Proof.
  induction l as [|x l IH]; intros H; cbn; [reflexivity|].
  rewrite (H x) by (left; reflexivity). apply IH. intros y Hy; apply H; right; exact Hy.
Qed.

Lemma existsb_eqb_in k (l : list string) : In k l -> existsb (String.eqb k) l = true.
Proof. intros H. apply existsb_exists. exists k; split; [exact H | apply String.eqb_refl]. Qed.

Lemma existsb_eqb_notin k (l : list string) : ~ In k l -> existsb (String.eqb k) l = false.
Proof.
  intros H. destruct (existsb (String.eqb k) l) eqn:E; [|reflexivity].
  apply existsb_exists in E. destruct E as [x [Hx Hk]]. apply String.eqb_eq in Hk. subst x.
  contradiction.
Qed.

Lemma shape_eqb_eq a b : shape_eqb a b = true <-> a = b.
Proof.
  revert b; induction a as [|x a IH]; intros [|y b]; cbn; split; intros H;
    try reflexivity; try discriminate.
  - apply andb_true_iff in H. destruct H as [H1 H2]. apply Nat.eqb_eq in H1.
    apply IH in H2. subst; reflexivity.
  - inversion H; subst. rewrite Nat.eqb_refl. cbn. apply IH. reflexivity.
Qed.

Definition in_u8 (z : Z) : Prop := (0 <= z < 256)%Z.

Lemma to_uint8_ok z : in_u8 z -> to_uint8 z = Ok z.
Proof.
  intros [H1 H2]. unfold to_uint8.
  destruct (Z.leb_spec 0 z); [|lia]. destruct (Z.ltb_spec z 256); [|lia]. reflexivity.
Qed.

Lemma to_uint8_inv z r : to_uint8 z = Ok r -> in_u8 z /\ r = z.
Proof.
  unfold to_uint8. destruct (Z.leb_spec 0 z); cbn; [|discriminate].
  destruct (Z.ltb_spec z 256); [|discriminate]. intros Hr; inversion Hr. unfold in_u8. lia.
Qed.

Lemma to_uint8_err z e : to_uint8 z = Err e -> e = OtherError /\ ~ in_u8 z.
Proof.
  unfold to_uint8, in_u8. destruct (Z.leb_spec 0 z); cbn.
  - destruct (Z.ltb_spec z 256); [discriminate|]. intros Hr; inversion Hr. split; [reflexivity | lia].
  - intros Hr; inversion Hr. split; [reflexivity | lia].
Qed.

(* ------------------------------------------------------------------------- *)
(* minerals: stacking, validation                                            *)
(* ------------------------------------------------------------------------- *)
Section Arrays.
  Context {X : Type}.
  Notation nda := (nda X). Notation stacked := (stacked X).
  Notation mineral := (mineral X). Notation payload := (payload X).

  Definition uniform (l : list nda) : Prop :=
    match l with [] => True | a :: r => Forall (fun b => shp b = shp a) r end.

  Lemma forallb_shape (a : nda) r :
    forallb (fun b : nda => shape_eqb (shp b) (shp a)) r = true
    <-> Forall (fun b => shp b = shp a) r.
  Proof.
    rewrite forallb_forall, Forall_forall. split; intros H b Hb.
    - apply shape_eqb_eq. apply H; exact Hb.
    - apply shape_eqb_eq. apply H; exact Hb.
  Qed.

  Lemma stack_ok_iff (l : list nda) : (exists s, stack l = Ok s) <-> (l <> [] /\ uniform l).
  Proof.
    destruct l as [|a r]; cbn [stack uniform].
    - split; [intros [s H]; discriminate | intros [H _]; congruence].
    - destruct (forallb (fun b : nda => shape_eqb (shp b) (shp a)) r) eqn:E.
      + split; [|eexists; reflexivity]. intros _. split; [discriminate|]. apply forallb_shape; exact E.
      + split; [intros [s H]; discriminate|]. intros [_ H]. apply forallb_shape in H. congruence.
  Qed.

  Lemma stack_err (l : list nda) e : stack l = Err e -> e = ValueError.
  Proof.
    destruct l as [|a r]; cbn [stack]; [intros H; inversion H; reflexivity|].
    destruct (forallb _ r); intros H; inversion H; reflexivity.
  Qed.

  Lemma unstack_stack (l : list nda) s : stack l = Ok s -> unstack s = l.
  Proof.
    destruct l as [|a r]; cbn [stack]; [discriminate|].
    destruct (forallb (fun b : nda => shape_eqb (shp b) (shp a)) r) eqn:E; [|discriminate].
    intros H; inversion H; subst s; clear H. unfold unstack; cbn [row_shp rows map].
    f_equal; [destruct a; reflexivity|].
    apply forallb_shape in E. induction E as [|b r Hb _ IH]; cbn [map]; [reflexivity|].
    f_equal; [|exact IH]. rewrite <- Hb. destruct b; reflexivity.
  Qed.

  Lemma stack_rows_length (l : list nda) s : stack l = Ok s -> List.length (rows s) = List.length l.
  Proof.
    destruct l as [|a r]; cbn [stack]; [discriminate|].
    destruct (forallb _ r); [|discriminate]. intros H; inversion H; cbn [rows].
    apply (map_length dat (a :: r)).
  Qed.

  (* the state a mineral must be in for save to go through *)
  Definition wf (m : mineral) : Prop :=
    List.length (fractions m) = List.length (orientations m) /\
    (exists f0 fr sf, fractions m = f0 :: fr /\ shp f0 = n_grains m :: sf) /\
    (exists o0 ors so, orientations m = o0 :: ors /\ shp o0 = n_grains m :: so) /\
    uniform (fractions m) /\ uniform (orientations m) /\
    in_u8 (phase m) /\ in_u8 (fabric m) /\ in_u8 (regime m).

  Definition meta_of (m : mineral) : list Z := [phase m; fabric m; regime m].

  Lemma build_data_wf (m : mineral) : wf m ->
    exists sf so, build_data m = Ok (meta_of m, sf, so)
                  /\ unstack sf = fractions m /\ unstack so = orientations m.
  Proof.
    intros (Hl & (f0 & fr & sf & Hf & Hsf) & (o0 & ors & so & Ho & Hso) & Uf & Uo & Hp & Hfa & Hr).
    destruct (proj2 (stack_ok_iff (fractions m))) as [s1 H1].
    { split; [rewrite Hf; discriminate | exact Uf]. }
    destruct (proj2 (stack_ok_iff (orientations m))) as [s2 H2].
    { split; [rewrite Ho; discriminate | exact Uo]. }
    exists s1, s2. split; [|split; apply unstack_stack; assumption].
    unfold build_data. rewrite Hl, Nat.eqb_refl. cbn [negb].
    rewrite Hf, Ho. unfold shape0. rewrite Hsf, Hso, !Nat.eqb_refl. cbn [andb].
    rewrite <- Hf, <- Ho.
    rewrite (to_uint8_ok _ Hp), (to_uint8_ok _ Hfa), (to_uint8_ok _ Hr). cbn [bind].
    rewrite H1, H2. reflexivity.
  Qed.

  Lemma build_data_inv (m : mineral) d : build_data m = Ok d -> wf m.
  Proof.
    unfold build_data, wf.
    destruct (List.length (fractions m) =? List.length (orientations m))%nat eqn:El; [|discriminate].
    apply Nat.eqb_eq in El. cbn [negb].
    destruct (fractions m) as [|f0 fr] eqn:Hf; [discriminate|].
    unfold shape0. destruct (shp f0) as [|nf sf] eqn:Hsf; [discriminate|].
    destruct (orientations m) as [|o0 ors] eqn:Ho; [discriminate|].
    destruct (shp o0) as [|no so] eqn:Hso; [discriminate|].
    destruct ((nf =? no)%nat && (no =? n_grains m)%nat) eqn:En; [|discriminate].
    apply andb_true_iff in En. destruct En as [E1 E2].
    apply Nat.eqb_eq in E1. apply Nat.eqb_eq in E2. subst nf no.
    destruct (to_uint8 (phase m)) as [p|] eqn:Hp; [|discriminate].
    destruct (to_uint8 (fabric m)) as [f|] eqn:Hfa; [|discriminate].
    destruct (to_uint8 (regime m)) as [r|] eqn:Hr; [|discriminate]. cbn [bind].
    destruct (stack (f0 :: fr)) as [s1|] eqn:H1; [|discriminate].
    destruct (stack (o0 :: ors)) as [s2|] eqn:H2; [|discriminate]. cbn [bind].
    intros _.
    apply to_uint8_inv in Hp. apply to_uint8_inv in Hfa. apply to_uint8_inv in Hr.
    assert (U1 : uniform (f0 :: fr)) by (apply (proj1 (stack_ok_iff _)); eexists; exact H1).
    assert (U2 : uniform (o0 :: ors)) by (apply (proj1 (stack_ok_iff _)); eexists; exact H2).
    split; [exact El|].
    split; [exists f0, fr, sf; split; [reflexivity | exact Hsf]|].
    split; [exists o0, ors, so; split; [reflexivity | exact Hso]|].
    tauto.
  Qed.

  Theorem build_data_iff_wf (m : mineral) : (exists d, build_data m = Ok d) <-> wf m.
  Proof.
    split.
    - intros [d H]. eapply build_data_inv; exact H.
    - intros H. destruct (build_data_wf m H) as (sf & so & H1 & _). eexists; exact H1.
  Qed.

  (* ---- corrupt state: the three ways the source names ----------------------- *)
  Definition corrupt_counts (m : mineral) : Prop :=
    List.length (fractions m) <> List.length (orientations m).

  Definition corrupt_first_size (m : mineral) : Prop :=
    List.length (fractions m) = List.length (orientations m) /\
    exists f0 fr nf sf o0 ors no so,
      fractions m = f0 :: fr /\ shp f0 = nf :: sf /\
      orientations m = o0 :: ors /\ shp o0 = no :: so /\
      ~ (nf = no /\ no = n_grains m).

  Definition corrupt_ragged (m : mineral) : Prop :=
    List.length (fractions m) = List.length (orientations m) /\
    (exists f0 fr sf, fractions m = f0 :: fr /\ shp f0 = n_grains m :: sf) /\
    (exists o0 ors so, orientations m = o0 :: ors /\ shp o0 = n_grains m :: so) /\
    in_u8 (phase m) /\ in_u8 (fabric m) /\ in_u8 (regime m) /\
    (~ uniform (fractions m) \/ ~ uniform (orientations m)).

  Lemma build_data_corrupt (m : mineral) :
    corrupt_counts m \/ corrupt_first_size m \/ corrupt_ragged m ->
    build_data m = Err ValueError.
  Proof.
    intros [H | [H | H]]; unfold build_data.
    - apply Nat.eqb_neq in H. rewrite H. reflexivity.
    - destruct H as (Hl & f0 & fr & nf & sf & o0 & ors & no & so & Hf & Hsf & Ho & Hso & Hn).
      rewrite Hl, Nat.eqb_refl. cbn [negb]. rewrite Hf, Ho. unfold shape0. rewrite Hsf, Hso.
      destruct ((nf =? no)%nat && (no =? n_grains m)%nat) eqn:E; [|reflexivity].
      apply andb_true_iff in E. destruct E as [E1 E2].
      apply Nat.eqb_eq in E1. apply Nat.eqb_eq in E2. tauto.
    - destruct H as (Hl & (f0 & fr & sf & Hf & Hsf) & (o0 & ors & so & Ho & Hso) & Hp & Hfa & Hr & Hu).
      rewrite Hl, Nat.eqb_refl. cbn [negb]. rewrite Hf, Ho. unfold shape0.
      rewrite Hsf, Hso, !Nat.eqb_refl. cbn [andb]. rewrite <- Hf, <- Ho.
      rewrite (to_uint8_ok _ Hp), (to_uint8_ok _ Hfa), (to_uint8_ok _ Hr). cbn [bind].
      destruct (stack (fractions m)) as [s1|e1] eqn:H1.
      + cbn [bind]. destruct (stack (orientations m)) as [s2|e2] eqn:H2.
        * exfalso. destruct Hu as [Hu | Hu]; apply Hu.
          -- apply (proj1 (stack_ok_iff _)). eexists; exact H1.
          -- apply (proj1 (stack_ok_iff _)). eexists; exact H2.
        * cbn [bind]. apply stack_err in H2. subst; reflexivity.
      + cbn [bind]. apply stack_err in H1. subst; reflexivity.
  Qed.

  (* replace the grain count *)
  Definition set_n (n : nat) (m : mineral) : mineral :=
    mk_mineral (phase m) (fabric m) (regime m) n (fractions m) (orientations m).

  Lemma set_n_same (m : mineral) : set_n (n_grains m) m = m.
  Proof. destruct m; reflexivity. Qed.

  Definition comp (b : base) (d : list Z * stacked * stacked) : payload :=
    let '(mt, sf, so) := d in
    match b with BMeta => PMeta mt | BFractions => PStack sf | BOrientations => PStack so end.

  (* ------------------------------------------------------------------------- *)
  (* archives                                                                  *)
  (* ------------------------------------------------------------------------- *)
  Section Blob.
    Context {blob : Type}.
    Variable npy : payload -> blob.
    Variable unnpy : blob -> option payload.
    (* ORACLE hypothesis (numpy.save / numpy.load of one member; checked at run time
       bit-for-bit on every array written) *)
    Hypothesis npy_roundtrip : forall a, unnpy (npy a) = Some a.

    Notation archive := (@archive blob).
    Notation filesys := (@filesys blob).

    Lemma zget_app n (ar e : archive) :
      zget n (ar ++ e)%list = match zget n e with Some b => Some b | None => zget n ar end.
    Proof.
      unfold zget. rewrite rev_app_distr, find_app_.
      destruct (find _ (rev e)); reflexivity.
    Qed.

    Lemma zget_none n (ar : archive) : ~ In n (names ar) -> zget n ar = None.
    Proof.
      intros H. unfold zget. rewrite find_none_; [reflexivity|].
      intros x Hx. apply String.eqb_neq. intros E. apply H. apply in_rev in Hx.
      unfold names. rewrite <- E. apply in_map. exact Hx.
    Qed.

    Lemma zget_in n (ar : archive) b : zget n ar = Some b -> In n (names ar).
    Proof.
      unfold zget. destruct (find _ (rev ar)) as [e|] eqn:E; [|discriminate]. intros _.
      apply find_some in E. destruct E as [Hin He]. apply String.eqb_eq in He.
      apply in_rev in Hin. unfold names. rewrite <- He. apply in_map. exact Hin.
    Qed.

    Lemma names_entries pf d :
      names (entries npy pf d) = [member BMeta pf; member BFractions pf; member BOrientations pf].
    Proof. destruct d as [[mt sf] so]. reflexivity. Qed.

    Lemma names_app (a b : archive) : names (a ++ b)%list = (names a ++ names b)%list.
    Proof. apply map_app. Qed.

    Lemma zget3 n n1 n2 n3 (b1 b2 b3 : blob) :
      zget n [(n1, b1); (n2, b2); (n3, b3)]
      = if String.eqb n3 n then Some b3 else if String.eqb n2 n then Some b2
        else if String.eqb n1 n then Some b1 else None.
    Proof.
      unfold zget. cbn. destruct (String.eqb n3 n); [reflexivity|].
      destruct (String.eqb n2 n); [reflexivity|]. destruct (String.eqb n1 n); reflexivity.
    Qed.

    Lemma zget_entries_hit b pf d :
      zget (member b pf) (entries npy pf d) = Some (npy (comp b d)).
    Proof.
      destruct d as [[mt sf] so]; destruct b; unfold entries; rewrite zget3;
      repeat match goal with
      | |- context [String.eqb ?x ?y] =>
          let E := fresh "E" in
          destruct (String.eqb_spec x y) as [E|E];
          [ try (apply member_injective in E; destruct E as [E _]; discriminate E)
          | try (exfalso; apply E; reflexivity) ]
      end; reflexivity.
    Qed.

    Lemma zget_entries_miss n pf d :
      (forall b, n <> member b pf) -> zget n (entries npy pf d) = None.
    Proof.
      intros H. apply zget_none. rewrite names_entries. cbn [In].
      intros [E | [E | [E | []]]]; symmetry in E; eapply H; exact E.
    Qed.

    Lemma npz_get_direct k (ar : archive) b :
      zget k ar = Some (npy b) -> npz_get unnpy k ar = Ok b.
    Proof.
      intros H. unfold npz_get. rewrite (existsb_eqb_in k (names ar)) by (eapply zget_in; exact H).
      rewrite H, npy_roundtrip. reflexivity.
    Qed.

    Lemma npz_get_plain bs (ar : archive) b :
      ~ In (base_name bs) (names ar) ->
      zget (member bs None) ar = Some (npy b) -> npz_get unnpy (base_name bs) ar = Ok b.
    Proof.
      intros Hn H. unfold npz_get. rewrite (existsb_eqb_notin _ _ Hn).
      rewrite existsb_eqb_in.
      - change (base_name bs ++ ".npy") with (member bs None). rewrite H, npy_roundtrip. reflexivity.
      - rewrite <- strip_whole_member. apply in_map. eapply zget_in; exact H.
    Qed.

    Lemma npz_get_absent k (ar : archive) :
      ~ In k (names ar) -> ~ In k (map strip_npy (names ar)) -> npz_get unnpy k ar = Err KeyError.
    Proof.
      intros H1 H2. unfold npz_get.
      rewrite (existsb_eqb_notin _ _ H1), (existsb_eqb_notin _ _ H2). reflexivity.
    Qed.

    Lemma fs_get_set fn ar (fs : filesys) : fs_get fn (fs_set fn ar fs) = Some ar.
    Proof. unfold fs_get, fs_set. cbn. rewrite String.eqb_refl. reflexivity. Qed.

    Lemma fs_get_set_other fn fn' ar (fs : filesys) :
      fn' <> fn -> fs_get fn (fs_set fn' ar fs) = fs_get fn fs.
    Proof.
      intros H. unfold fs_get, fs_set. cbn. apply String.eqb_neq in H. rewrite H. reflexivity.
    Qed.

    (* ---- what an archive must contain for a mineral to be read back ---------- *)
    (* "the archive of file fn holds d under postfix pf" *)
    Definition holds (fn : string) (pf : option string) (d : list Z * stacked * stacked)
               (fs : filesys) : Prop :=
      exists ar, fs_get fn fs = Some ar /\
        (forall b, zget (member b pf) ar = Some (npy (comp b d))) /\
        (pf = None -> forall b, ~ In (base_name b) (names ar)).

    Lemma holds_get fn pf d fs ar :
      fs_get fn fs = Some ar ->
      (forall b, zget (member b pf) ar = Some (npy (comp b d))) ->
      (pf = None -> forall b, ~ In (base_name b) (names ar)) ->
      forall b, npz_get unnpy (item b pf) ar = Ok (comp b d).
    Proof.
      intros _ Hz Hp b. destruct pf as [p|].
      - apply npz_get_direct. apply Hz.
      - cbn [item]. apply npz_get_plain; [apply Hp; reflexivity | apply Hz].
    Qed.

    Lemma read_fields_holds (ar : archive) pf (m : mineral) sf so :
      (forall b, npz_get unnpy (item b pf) ar = Ok (comp b (meta_of m, sf, so))) ->
      read_fields unnpy ar pf = Ok (phase m, fabric m, regime m, unstack sf, unstack so).
    Proof.
      intros H. unfold read_fields.
      rewrite (H BMeta), (H BFractions), (H BOrientations). reflexivity.
    Qed.

    Lemma readers_of_holds fn pf (m : mineral) sf so fs :
      ends_with ".npz" fn = true -> wf m ->
      unstack sf = fractions m -> unstack so = orientations m ->
      holds fn pf (meta_of m, sf, so) fs ->
      from_file unnpy fn pf fs = Ok m /\
      (forall t, load unnpy false t fn pf fs = Ok (set_n (n_grains t) m)) /\
      (forall t, load unnpy true t fn pf fs = Ok m).
    Proof.
      intros Hfn Hwf Hsf Hso (ar & Hg & Hz & Hp).
      pose proof (read_fields_holds ar pf m sf so (holds_get fn pf _ fs ar Hg Hz Hp)) as Hr.
      rewrite Hsf, Hso in Hr.
      destruct Hwf as (_ & (f0 & fr & s1 & Hf & Hs1) & (o0 & ors & s2 & Ho & _) & _).
      unfold from_file, load, open_npz. rewrite Hfn, Hg. cbn [negb bind]. rewrite Hr. cbn [bind].
      rewrite Hf, Ho. unfold len0. rewrite Hs1. cbn [bind]. rewrite <- Hf, <- Ho.
      repeat split; try intros t; try reflexivity; destruct m; reflexivity.
    Qed.

    (* ---- one save ------------------------------------------------------------- *)
    Lemma save_ok_eq (m : mineral) fn pf (fs : filesys) d :
      build_data m = Ok d ->
      save npy m fn pf fs =
      (fs_set (save_target fn pf)
         (match pf with
          | None => entries npy pf d
          | Some _ => (match fs_get fn fs with Some a => a | None => [] end) ++ entries npy pf d
          end)%list fs, Ok tt).
    Proof. intros H. unfold save. rewrite H. destruct pf; reflexivity. Qed.

    Lemma save_err_eq (m : mineral) fn pf (fs : filesys) e :
      build_data m = Err e -> save npy m fn pf fs = (fs, Err e).
    Proof. intros H. unfold save. rewrite H. reflexivity. Qed.

    Lemma save_outcome (m : mineral) fn pf (fs : filesys) :
      snd (save npy m fn pf fs) = match build_data m with Ok _ => Ok tt | Err e => Err e end.
    Proof. unfold save. destruct (build_data m); [destruct pf|]; reflexivity. Qed.

    Theorem save_error_no_write (m : mineral) fn pf (fs : filesys) e :
      snd (save npy m fn pf fs) = Err e -> fst (save npy m fn pf fs) = fs.
    Proof.
      unfold save. destruct (build_data m) as [d|e']; [destruct pf; discriminate | reflexivity].
    Qed.

    Theorem save_succeeds_iff_wf (m : mineral) fn pf (fs : filesys) :
      snd (save npy m fn pf fs) = Ok tt <-> wf m.
    Proof.
      rewrite save_outcome, <- build_data_iff_wf. destruct (build_data m) as [d|e].
      - split; [intros _; eexists; reflexivity | reflexivity].
      - split; [discriminate | intros [d H]; discriminate].
    Qed.

    Theorem corrupt_rejected (m : mineral) fn pf (fs : filesys) :
      corrupt_counts m \/ corrupt_first_size m \/ corrupt_ragged m ->
      save npy m fn pf fs = (fs, Err ValueError).
    Proof. intros H. apply save_err_eq. apply build_data_corrupt. exact H. Qed.

    (* no snapshot at all: fractions[0] raises IndexError before anything is written *)
    Theorem empty_rejected (m : mineral) fn pf (fs : filesys) :
      fractions m = [] -> orientations m = [] -> save npy m fn pf fs = (fs, Err IndexError).
    Proof.
      intros H1 H2. apply save_err_eq. unfold build_data. rewrite H1, H2. reflexivity.
    Qed.

    (* metadata outside uint8: OverflowError (modelled as OtherError), nothing written *)
    Theorem meta_overflow_rejected (m : mineral) fn pf (fs : filesys) :
      ~ (in_u8 (phase m) /\ in_u8 (fabric m) /\ in_u8 (regime m)) ->
      exists e, save npy m fn pf fs = (fs, Err e).
    Proof.
      intros H. destruct (build_data m) as [d|e] eqn:E.
      - exfalso. apply build_data_inv in E. unfold wf in E. tauto.
      - exists e. apply save_err_eq. exact E.
    Qed.

    Lemma holds_after_save (m : mineral) fn pf (fs : filesys) sf so :
      ends_with ".npz" fn = true ->
      build_data m = Ok (meta_of m, sf, so) ->
      holds fn pf (meta_of m, sf, so) (fst (save npy m fn pf fs)).
    Proof.
      intros Hfn Hb. rewrite (save_ok_eq _ _ _ _ _ Hb), (save_target_npz _ _ Hfn). cbn [fst].
      eexists. split; [apply fs_get_set|]. split.
      - intros b. destruct pf as [p|].
        + rewrite zget_app, zget_entries_hit. reflexivity.
        + apply zget_entries_hit.
      - intros -> b. rewrite names_entries. cbn [In].
        intros [E | [E | [E | []]]]; symmetry in E; revert E; apply plain_not_member.
    Qed.

    (* a later postfix save under another postfix (or a save that raises) keeps it *)
    Lemma holds_preserved (m' : mineral) fn q pf d (fs : filesys) :
      pf <> Some q ->
      holds fn pf d fs -> holds fn pf d (fst (save npy m' fn (Some q) fs)).
    Proof.
      intros Hq (ar & Hg & Hz & Hp). destruct (build_data m') as [d'|e] eqn:Hb.
      - rewrite (save_ok_eq _ _ _ _ _ Hb). cbn [save_target fst]. rewrite Hg.
        eexists. split; [apply fs_get_set|]. split.
        + intros b. rewrite zget_app, zget_entries_miss; [apply Hz|].
          intros b' E. apply member_injective in E. destruct E as [_ E]. contradiction.
        + intros Hn b. rewrite names_app, names_entries. intros Hin. apply in_app_or in Hin.
          destruct Hin as [Hin | Hin]; [exact (Hp Hn b Hin)|]. cbn [In] in Hin.
          destruct Hin as [E | [E | [E | []]]]; symmetry in E; revert E; apply plain_not_member.
      - rewrite (save_err_eq _ _ _ _ _ Hb). cbn [fst]. exists ar. auto.
    Qed.

    Definition later_ok (pf : option string) (l : list (option string * mineral)) : Prop :=
      Forall (fun pm => exists q, fst pm = Some q /\ pf <> Some q) l.

    Lemma holds_history fn pf d l : forall (fs : filesys),
      later_ok pf l -> holds fn pf d fs -> holds fn pf d (save_all npy fn l fs).
    Proof.
      induction l as [|[q' m'] l IH]; intros fs Hl H; cbn [save_all fold_left]; [exact H|].
      inversion Hl as [|x l' Hx Hl']; subst. destruct Hx as (q & Hq1 & Hq2). cbn [fst snd] in *. subst q'.
      apply IH; [exact Hl'|]. apply holds_preserved; assumption.
    Qed.

    (* ---- round trips ---------------------------------------------------------- *)
    (* the general statement: m is saved (whole file or under a postfix) after ANY
       earlier history l1 on ANY initial file system, then ANY later list of postfix
       saves follows none of which reuses m's postfix (they may fail, repeat each other,
       have any length): both loaders return m. *)
    Theorem history_roundtrip fn pf (m : mineral) l1 l2 (fs : filesys) :
      ends_with ".npz" fn = true -> wf m -> later_ok pf l2 ->
      let fs' := save_all npy fn (l1 ++ (pf, m) :: l2)%list fs in
      from_file unnpy fn pf fs' = Ok m /\
      (forall t, load unnpy false t fn pf fs' = Ok (set_n (n_grains t) m)) /\
      (forall t, load unnpy true t fn pf fs' = Ok m).
    Proof.
      intros Hfn Hwf Hl fs'. destruct (build_data_wf m Hwf) as (sf & so & Hb & Hsf & Hso).
      apply (readers_of_holds fn pf m sf so); try assumption.
      subst fs'. unfold save_all. rewrite fold_left_app. cbn [fold_left fst snd].
      apply holds_history; [exact Hl|]. apply holds_after_save; assumption.
    Qed.

    Lemma later_ok_of_notin p (l : list (string * mineral)) :
      ~ In p (map fst l) ->
      later_ok (Some p) (map (fun pm => (Some (fst pm), snd pm)) l).
    Proof.
      intros H. unfold later_ok. rewrite Forall_map. apply Forall_forall. intros [q m'] Hin.
      exists q. cbn [fst]. split; [reflexivity|]. intros E. inversion E; subst q. apply H.
      change p with (fst (p, m')). apply in_map. exact Hin.
    Qed.

    Definition with_postfix (l : list (string * mineral)) : list (option string * mineral) :=
      map (fun pm => (Some (fst pm), snd pm)) l.

    Theorem repeat_postfix_last_wins fn p (m : mineral) l1 l2 (fs : filesys) :
      ends_with ".npz" fn = true -> wf m -> ~ In p (map fst l2) ->
      let fs' := save_all npy fn (with_postfix (l1 ++ (p, m) :: l2)%list) fs in
      from_file unnpy fn (Some p) fs' = Ok m /\
      (forall t, load unnpy true t fn (Some p) fs' = Ok m).
    Proof.
      intros Hfn Hwf Hn fs'. subst fs'. unfold with_postfix. rewrite map_app. cbn [map fst snd].
      destruct (history_roundtrip fn (Some p) m (with_postfix l1) (with_postfix l2) fs Hfn Hwf
                  (later_ok_of_notin p l2 Hn)) as (H1 & _ & H2).
      split; assumption.
    Qed.

    Theorem many_saves fn (l : list (string * mineral)) (fs : filesys) :
      ends_with ".npz" fn = true -> NoDup (map fst l) ->
      let fs' := save_all npy fn (with_postfix l) fs in
      forall p m, In (p, m) l -> wf m ->
        from_file unnpy fn (Some p) fs' = Ok m /\
        (forall t, load unnpy true t fn (Some p) fs' = Ok m).
    Proof.
      intros Hfn Hnd fs' p m Hin Hwf. subst fs'.
      destruct (in_split _ _ Hin) as (l1 & l2 & ->).
      apply repeat_postfix_last_wins; try assumption.
      rewrite map_app in Hnd. cbn [map fst] in Hnd. apply NoDup_remove_2 in Hnd.
      intros H. apply Hnd. apply in_or_app. right. exact H.
    Qed.

    (* a whole-file save discards every postfix entry written before it *)
    Theorem whole_save_discards_postfixes fn p (m : mineral) (fs : filesys) :
      ends_with ".npz" fn = true -> wf m ->
      from_file unnpy fn (Some p) (fst (save npy m fn None fs)) = Err KeyError.
    Proof.
      intros Hfn Hwf. destruct (build_data_wf m Hwf) as (sf & so & Hb & _).
      rewrite (save_ok_eq _ _ _ _ _ Hb), (save_target_npz _ _ Hfn). cbn [fst].
      unfold from_file, open_npz. rewrite Hfn, fs_get_set. cbn [negb bind].
      unfold read_fields. rewrite npz_get_absent; [reflexivity | |];
        rewrite names_entries; cbn [map In item]; rewrite ?strip_whole_member.
      - intros [E | [E | [E | []]]]; symmetry in E; revert E; apply key_not_whole_member.
      - intros [E | [E | [E | []]]]; symmetry in E; revert E; apply key_not_plain.
    Qed.

    Theorem non_npz_rejected fn pf (fs : filesys) t sn :
      ends_with ".npz" fn = false ->
      load unnpy sn t fn pf fs = Err ValueError /\ from_file unnpy fn pf fs = Err ValueError.
    Proof. intros H. unfold load, from_file, open_npz. rewrite H. split; reflexivity. Qed.

    (* from_file and load run the same reads; they differ in the grain count only *)
    Theorem from_file_eq_load fn pf (fs : filesys) t :
      match from_file unnpy fn pf fs, load unnpy false t fn pf fs with
      | Ok a, Ok b => b = set_n (n_grains t) a
      | Err _, Err _ => True
      | Ok _, Err _ => False
      | Err e, Ok b => e = TypeError      (* len() of a 0-d first snapshot *)
      end.
    Proof.
      unfold from_file, load. destruct (open_npz fn fs) as [ar|e]; cbn [bind]; [|exact I].
      destruct (read_fields unnpy ar pf) as [[[[[p f] r] frs] ors]|e]; cbn [bind]; [|exact I].
      destruct frs as [|f0 frs]; destruct ors as [|o0 ors]; try exact I;
        unfold len0; destruct (shp f0); cbn [bind]; try exact I; reflexivity.
    Qed.

    Theorem load_true_eq_from_file fn pf (fs : filesys) t :
      match from_file unnpy fn pf fs, load unnpy true t fn pf fs with
      | Ok a, Ok b => a = b
      | Err _, Err _ => True
      | _, _ => False
      end.
    Proof.
      unfold from_file, load. destruct (open_npz fn fs) as [ar|e]; cbn [bind]; [|exact I].
      destruct (read_fields unnpy ar pf) as [[[[[p f] r] frs] ors]|e]; cbn [bind]; [|exact I].
      destruct frs as [|f0 frs]; destruct ors as [|o0 ors]; try exact I.
      - unfold len0. destruct (shp f0); cbn [bind]; exact I.
      - unfold len0. destruct (shp f0); cbn [bind]; reflexivity.
    Qed.
  End Blob.
End Arrays.

(* ------------------------------------------------------------------------- *)
(* concrete witnesses (identity blobs; elements are integers)                *)
(* ------------------------------------------------------------------------- *)
Definition wnpy (p : payload Z) : payload Z := p.
Definition wunnpy (b : payload Z) : option (payload Z) := Some b.

Definition w_arr (n : nat) (tail : list nat) (v : Z) : nda Z :=
  mk_nda (n :: tail) (repeat v (n * fold_right Nat.mul 1%nat tail)).

(* two snapshots of two grains *)
Definition w_m2 : mineral Z :=
  mk_mineral 1 5 4 2 [w_arr 2 [] 7; w_arr 2 [] 8] [w_arr 2 [3; 3]%nat 9; w_arr 2 [3; 3]%nat 10].
(* a one-grain object to load into *)
Definition w_t1 : mineral Z := mk_mineral 0 0 4 1 [w_arr 1 [] 1] [w_arr 1 [3; 3]%nat 2].

Lemma w_m2_wf : wf w_m2.
Proof.
  unfold wf, w_m2, in_u8; cbn. repeat split; try lia.
  - exists (w_arr 2 [] 7), [w_arr 2 [] 8], []. split; reflexivity.
  - exists (w_arr 2 [3; 3]%nat 9), [w_arr 2 [3; 3]%nat 10], [3; 3]%nat. split; reflexivity.
  - repeat constructor.
  - repeat constructor.
Qed.

(* load (as it is) into an object with another grain count: the result claims one
   grain, holds two, and cannot be saved again *)
Lemma load_stale_witness :
  let fs := fst (save wnpy w_m2 "a.npz" None []) in
  exists r, load wunnpy false w_t1 "a.npz" None fs = Ok r /\
            n_grains r <> n_grains w_m2 /\ fractions r = fractions w_m2 /\
            snd (save wnpy r "b.npz" None fs) = Err ValueError.
Proof.
  eexists. split; [vm_compute; reflexivity|]. split; [cbn; discriminate|].
  split; vm_compute; reflexivity.
Qed.

(* NpzFile strips ".npy": postfix "x" was never saved, yet it loads what was saved
   under postfix "x.npy" *)
Lemma npy_alias_witness :
  let fs := fst (save wnpy w_m2 "a.npz" (Some "x.npy") []) in
  from_file wunnpy "a.npz" (Some "x") fs = Ok w_m2.
Proof. vm_compute. reflexivity. Qed.

(* ... but once "x" is saved too, each of the two gets its own data back *)
Lemma npy_alias_harmless :
  let fs := fst (save wnpy w_t1 "a.npz" (Some "x") (fst (save wnpy w_m2 "a.npz" (Some "x.npy") []))) in
  from_file wunnpy "a.npz" (Some "x") fs = Ok w_t1 /\
  from_file wunnpy "a.npz" (Some "x.npy") fs = Ok w_m2.
Proof. vm_compute. split; reflexivity. Qed.

(* numpy.savez renames: a whole-file save to "a" writes "a.npz"; a postfix save to
   "a.dat" writes "a.dat", which both loaders refuse *)
Lemma save_name_witness :
  let fs := fst (save wnpy w_m2 "a" None []) in
  fs_get "a" fs = None /\ from_file wunnpy "a.npz" None fs = Ok w_m2 /\
  let fs2 := fst (save wnpy w_m2 "a.dat" (Some "p") []) in
  (exists ar, fs_get "a.dat" fs2 = Some ar) /\ from_file wunnpy "a.dat" (Some "p") fs2 = Err ValueError.
Proof. vm_compute. repeat split; try reflexivity. eexists; reflexivity. Qed.

(* the separator matters (mutation "f{key}{postfix}"): without it the postfix ".npy"
   produces exactly the member names of a whole-file save, and the empty postfix the
   plain subscripts *)
Definition key_nosep (b : base) (pf : string) : string := base_name b ++ pf.
Lemma key_nosep_injective b b' p p' : key_nosep b p = key_nosep b' p' -> b = b' /\ p = p'.
Proof. destruct b, b'; cbn; intros H; inversion H; auto. Qed.
Lemma key_nosep_collides : forall b, key_nosep b ".npy" = member b None /\ key_nosep b "" = base_name b.
Proof. destruct b; split; reflexivity. Qed.

(* ------------------------------------------------------------------------- *)
(* corollaries in the form stated in Properties/C17.v                        *)
(* ------------------------------------------------------------------------- *)
Section Corollaries.
  Context {X blob : Type}.
  Variable npy : payload X -> blob.
  Variable unnpy : blob -> option (payload X).
  Hypothesis RTH : forall a, unnpy (npy a) = Some a.

  Lemma history_roundtrip_cur fn pf (m : mineral X) l1 l2 (fs : @filesys blob) :
    ends_with ".npz" fn = true -> wf m -> later_ok pf l2 ->
    let fs' := save_all npy fn (l1 ++ (pf, m) :: l2)%list fs in
    from_file unnpy fn pf fs' = Ok m /\ (forall t, load unnpy true t fn pf fs' = Ok m).
  Proof.
    intros Hfn Hwf Hl. destruct (history_roundtrip npy unnpy RTH fn pf m l1 l2 fs Hfn Hwf Hl) as (A & _ & B).
    split; assumption.
  Qed.

  Lemma save_load_one fn pf (m : mineral X) (fs : @filesys blob) :
    ends_with ".npz" fn = true -> wf m ->
    let fs' := fst (save npy m fn pf fs) in
    from_file unnpy fn pf fs' = Ok m /\ (forall t, load unnpy true t fn pf fs' = Ok m).
  Proof. intros Hfn Hwf. exact (history_roundtrip_cur fn pf m [] [] fs Hfn Hwf (Forall_nil _)). Qed.

  Lemma load_without_grain_count fn pf (m t : mineral X) (fs : @filesys blob) :
    ends_with ".npz" fn = true -> wf m ->
    exists r, load unnpy false t fn pf (fst (save npy m fn pf fs)) = Ok r /\
      phase r = phase m /\ fabric r = fabric m /\ regime r = regime m /\
      fractions r = fractions m /\ orientations r = orientations m /\
      n_grains r = n_grains t /\ (n_grains t = n_grains m -> r = m).
  Proof.
    intros Hfn Hwf.
    destruct (history_roundtrip npy unnpy RTH fn pf m [] [] fs Hfn Hwf (Forall_nil _)) as (_ & B & _).
    exists (set_n (n_grains t) m). split; [apply B|]. repeat split.
    intros E. rewrite E. apply set_n_same.
  Qed.
End Corollaries.

Lemma postfix_keys_disjoint b b' p : key b p <> base_name b' /\ key b p <> member b' None.
Proof. split; [apply key_not_plain | apply key_not_whole_member]. Qed.

Lemma key_without_separator :
  (forall b b' p p', key_nosep b p = key_nosep b' p' -> b = b' /\ p = p') /\
  (forall b, key_nosep b ".npy" = member b None /\ key_nosep b "" = base_name b).
Proof. split; [exact key_nosep_injective | exact key_nosep_collides]. Qed.

Lemma npy_alias_both :
  from_file wunnpy "a.npz" (Some "x") (fst (save wnpy w_m2 "a.npz" (Some "x.npy") [])) = Ok w_m2
  /\
  (let fs := fst (save wnpy w_t1 "a.npz" (Some "x") (fst (save wnpy w_m2 "a.npz" (Some "x.npy") []))) in
   from_file wunnpy "a.npz" (Some "x") fs = Ok w_t1 /\
   from_file wunnpy "a.npz" (Some "x.npy") fs = Ok w_m2).
Proof. split; [exact npy_alias_witness | exact npy_alias_harmless]. Qed.

Lemma C17_nonvacuous_proof :
  wf w_m2 /\ (forall a, wunnpy (wnpy a) = Some a) /\ ends_with ".npz" "a.npz" = true /\
  NoDup (map fst [("x", w_m2); ("x_y", w_t1)]).
Proof.
  split; [exact w_m2_wf|]. split; [intros a; reflexivity|]. split; [reflexivity|].
  repeat constructor; cbn; intuition discriminate.
Qed.
