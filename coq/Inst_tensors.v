(* Inst_tensors.v -- kernel-checked instance lemma: the loop form Model_voigt.rotate4 (the
   one that is extracted and run against pydrex.tensors.rotate) coincides with the
   *generated* k_rotate on all 81 components, for all tensors and all matrices. *)
From Coq Require Import Reals ZArith List Lra Lia Arith.
From PV Require Import Num NumR Model_voigt Proofs_tensors_alg Proofs_tensors_rot.
From PV.gen Require Import Gen_tensors.
Import ListNotations.
Open Scope R_scope.

Lemma tab_spec (n : nat) (f : nat -> R) k : (k < n)%nat -> @tab NumR n f k = f k.
Proof.
  intros H. unfold tab, mk_arr.
  rewrite (nth_indep _ _ (f 0%nat)) by (rewrite map_length, seq_length; exact H).
  rewrite map_nth. rewrite seq_nth by exact H. reflexivity.
Qed.

(* one symbolic `ring`: the 81-term loop sum is the transformation law *)
Lemma rotate4_comp_law (T Q : arr NumR) i j k l :
  @rotate4_comp NumR T Q i j k l = rot4_law (t4 T) (mat3 Q) i j k l.
Proof.
  cbv [rotate4_comp idx4 flat_map map app fold_left rot4_law sum3 t4 mat3]. numR. ring.
Qed.

Lemma rotate4_index (T Q : arr NumR) : forall i j k l,
  (i < 3)%nat -> (j < 3)%nat -> (k < 3)%nat -> (l < 3)%nat ->
  t4 (@rotate4 NumR T Q) i j k l = @rotate4_comp NumR T Q i j k l.
Proof.
  intros i j k l Hi Hj Hk Hl. unfold t4, rotate4. rewrite tab_spec by lia.
  destruct i as [|[|[|i]]]; [ | | | exfalso; lia ];
  (destruct j as [|[|[|j]]]; [ | | | exfalso; lia ]);
  (destruct k as [|[|[|k]]]; [ | | | exfalso; lia ]);
  (destruct l as [|[|[|l]]]; [ | | | exfalso; lia ]); reflexivity.
Qed.

Theorem rotate4_is_k_rotate (T Q : arr NumR) : eq4b (t4 (@rotate4 NumR T Q)) (t4 (k_rotate T Q)).
Proof.
  intros i j k l Hi Hj Hk Hl.
  rewrite rotate4_index by assumption. rewrite rotate4_comp_law.
  symmetry. apply rotate_transformation_law; assumption.
Qed.
