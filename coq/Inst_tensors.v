(* Inst_tensors.v -- kernel-checked instance lemma: the loop form Model_voigt.rotate4 (the
   one that is extracted and run against pydrex.tensors.rotate) coincides with the
   *generated* k_rotate on all 81 components, for all tensors and all matrices. *)
From Coq Require Import Reals ZArith List Lra Lia Arith.
From PV Require Import Num NumR Model_voigt Proofs_tensors_alg Proofs_tensors_rot.
From PV.gen Require Import Gen_tensors.
Import ListNotations.
Open Scope R_scope.

Lemma tab_spec (n : nat) (f : nat -> R) k : (k < n)%nat -> @tab NumR n f k = f k.
Proof.
  intros H. unfold tab, mk_arr.
  rewrite (nth_indep _ _ (f 0%nat)) by (rewrite map_length, seq_length; exact H).
  rewrite map_nth. rewrite seq_nth by exact H. reflexivity.
Qed.

(* one symbolic `ring`: the 81-term loop sum is the transformation law *)
Lemma rotate4_comp_law (T Q : arr NumR) i j k l :
  @rotate4_comp NumR T Q i j k l = rot4_law (t4 T) (mat3 Q) i j k l.
Proof.
  cbv [rotate4_comp idx4 flat_map map app fold_left rot4_law sum3 t4 mat3]. numR. ring.
Qed.

Lemma rotate4_index (T Q : arr NumR) : forall i j k l,
  (i < 3)%nat -> (j < 3)%nat -> (k < 3)%nat -> (l < 3)%nat ->
  t4 (@rotate4 NumR T Q) i j k l = @rotate4_comp NumR T Q i j k l.
Proof.
  intros i j k l Hi Hj Hk Hl. unfold t4, rotate4. rewrite tab_spec by lia.
  destruct i as [|[|[|i]]]; [ | | | exfalso; lia ];
  (destruct j as [|[|[|j]]]; [ | | | exfalso; lia ]);
  (destruct k as [|[|[|k]]]; [ | | | exfalso; lia ]);
  (destruct l as [|[|[|l]]]; [ | | | exfalso; lia ]); reflexivity.
Qed.

Theorem rotate4_is_k_rotate (T Q : arr NumR) : eq4b (t4 (@rotate4 NumR T Q)) (t4 (k_rotate T Q)).
Proof.
  intros i j k l Hi Hj Hk Hl.
  rewrite rotate4_index by assumption. rewrite rotate4_comp_law.
  symmetry. apply rotate_transformation_law; assumption.
Qed.

(* ---------------------------------------------------------------------- *)
(* polar_decompose (tie T): coq/gen/Gen_polar.v is regenerated on every run from the *)
(* real pydrex.tensors.polar_decompose over the SVD oracle (translator/specs_tensors.py, *)
(* `polar_translation`).  Both variants coincide -- as Leibniz-equal results, for ALL     *)
(* matrices and all oracle outputs, no hypothesis -- with the hand-written models of       *)
(* Model_decomp on which every polar theorem of C11 is stated.  A branch added to the      *)
(* source (e.g. a fast path that skips the SVD) makes the translator fail closed or one of *)
(* these two proofs stop compiling.                                                        *)
(* ---------------------------------------------------------------------- *)
From PV Require Import Model_decomp.
From PV.gen Require Import Gen_polar.

Lemma pair_eq2 {X Y} (a a' : X) (b b' : Y) : a = a' -> b = b' -> (a, b) = (a', b').
Proof. intros -> ->; reflexivity. Qed.
Lemma cons_eq2 {X} (a b : X) l1 l2 : a = b -> l1 = l2 -> a :: l1 = b :: l2.
Proof. intros -> ->; reflexivity. Qed.
Lemma mk_arr_eq (l l' : list R) : l = l' -> @mk_arr R 0 l = @mk_arr R 0 l'.
Proof. intros ->; reflexivity. Qed.

Ltac arr_ring tac := apply mk_arr_eq; repeat (apply cons_eq2; [ tac | ]); try reflexivity.

Theorem polar_left_inst (M U S Vh : arr NumR) :
  @k_polar_decompose_left NumR M U S Vh = @polar_left NumR U S Vh.
Proof.
  unfold k_polar_decompose_left, polar_left. cbv zeta.
  cbv [matmul3 transpose3 diag3].
  lazymatch goal with
  | |- (mk_arr _ _, mk_arr _ _) = _ => idtac
  | _ => fail "the generated k_polar_decompose_left is no longer ONE pair (U @ Vh, U @ diag(S) @ U^T): polar_decompose(left=True) has a new branch / another result"
  end.
  apply pair_eq2; arr_ring ltac:(cbv [mk_arr nth]; numR; ring).
Qed.

(* the generated definition keeps its shared subterms as `let`s: they are moved to the context
   (no tactic mentions a generated name), the determinant is compared once by `ring`, then made
   opaque so that `field` only sees it as a variable *)
Ltac lift_let :=
  match goal with
  | |- (let x := ?t in @?f x) = ?r => let y := fresh "v" in pose (y := t); change (f y = r); cbv beta
  end.
Ltac subst_defs := repeat match goal with x := _ |- _ => subst x end.

Theorem polar_right_inst (M U S Vh : arr NumR) :
  @k_polar_decompose_right NumR M U S Vh = @polar_right NumR M S Vh.
Proof.
  cbv beta delta [k_polar_decompose_right]. repeat lift_let.
  lazymatch goal with
  | |- (if @neqb NumR _ _ then Err ValueError else _) = _ => idtac
  | _ => fail "the generated k_polar_decompose_right is no longer `if det(U_m) == 0 then LinAlgError else (M @ inv(U_m), U_m)`: polar_decompose(left=False) has a new branch / another result"
  end.
  unfold polar_right, inv3. cbv zeta.
  set (Um := matmul3 (transpose3 Vh) (matmul3 (diag3 S) Vh)).
  match goal with
  | |- (if @neqb NumR ?a _ then _ else _) = _ =>
      assert (HH : @det3 NumR Um = a)
        by (subst_defs; cbv [det3 matmul3 transpose3 diag3 mk_arr nth]; numR; ring);
      rewrite HH; change (@neqb NumR a (@nzero NumR)) with (Reqb a 0);
      destruct (Reqb a 0) eqn:E; [ reflexivity | apply Reqb_false in E; clear HH; clearbody a ]
  end.
  f_equal. apply pair_eq2.
  - unfold matmul3 at 1.
    arr_ring ltac:(subst_defs; cbv [matmul3 transpose3 diag3 mk_arr nth]; numR; field; exact E).
  - subst Um. unfold matmul3 at 1.
    arr_ring ltac:(subst_defs; cbv [matmul3 transpose3 diag3 mk_arr nth]; numR; ring).
Qed.
