(* Model_pathline_session.v -- hand-written model (tie H) of pydrex.pathlines.get_pathline as a
   FUNCTION OF ITS ARGUMENTS and of a SEQUENCE of get_pathline calls made in one process.

   * `sargs`: everything that reaches scipy.integrate.solve_ivp (the flow = family, axis
     letters and parameters; final location, box, max_strain).  `regular_steps` is only used by
     the post-processing (`timestamps` of Model_pathlines), so a request is `sargs * option nat`.
   * `solve` is the oracle solve_ivp as it is called by get_pathline (LSODA, the terminal event
     started from `ev_init max_strain`, dense output): a function of `sargs` that either raises
     or returns (path.t, path.sol).
   * `get_pathline r` = post-processing of `solve (fst r)`: this is the current source, which
     has no module-level state (variant `NoMemo`).
   * `session m c rs`: the results of the calls `rs` made one after the other in a process whose
     module-level store is `c` before the first call.  The variant `Memo key` is a get_pathline
     that memoizes solve_ivp's result under `key args` (the shape of the seeded regression
     C18c: key = id() of the callables + bytes of the arrays); it is here so that the
     proofs can say exactly when such a store is invisible and when it is not.
   No proofs in this file. *)
From Coq Require Import ZArith List Bool.
From PV Require Import Num Model_pathlines.
Import ListNotations.

Section Session.
  Context {F : Num}.
  Variable Sol : Type.                    (* path.sol, the dense output (OdeSolution) *)
  Variable K : Type.                      (* keys of the memoizing variant *)
  Variable keq : K -> K -> bool.

  Record sargs := mk_sargs {
    sa_flow : Z; sa_h : Z; sa_v : Z; sa_params : list F;       (* the two callables *)
    sa_final : list F; sa_min : list F; sa_max : list F; sa_strain : F }.

  Definition request : Type := (sargs * option nat)%type.       (* ..., regular_steps *)
  Definition solution : Type := (list F * Sol)%type.            (* path.t, path.sol *)
  Definition pathline : Type := (list F * Sol)%type.            (* returned (timestamps, interpolant) *)

  Variable solve : sargs -> res solution.

  Definition post (s : solution) (steps : option nat) : pathline := (timestamps (fst s) steps, snd s).

  (* the current source: a pure function of the arguments *)
  Definition get_pathline (r : request) : res pathline :=
    match solve (fst r) with
    | Err e => Err e
    | Ok s => Ok (post s (snd r))
    end.

  Inductive memo := NoMemo | Memo (key : sargs -> K).
  Definition store : Type := list (K * solution).

  Fixpoint lookup (k : K) (c : store) : option solution :=
    match c with
    | [] => None
    | (k', s) :: c' => if keq k k' then Some s else lookup k c'
    end.

  (* one call: new module-level store and the value returned to the caller *)
  Definition call (m : memo) (c : store) (r : request) : store * res pathline :=
    match m with
    | NoMemo => (c, get_pathline r)
    | Memo key =>
        match lookup (key (fst r)) c with
        | Some s => (c, Ok (post s (snd r)))
        | None =>
            match solve (fst r) with
            | Err e => (c, Err e)
            | Ok s => ((key (fst r), s) :: c, Ok (post s (snd r)))
            end
        end
    end.

  (* a whole call history: the list of returned values *)
  Fixpoint session (m : memo) (c : store) (rs : list request) : list (res pathline) :=
    match rs with
    | [] => []
    | r :: rs' => let '(c', out) := call m c r in out :: session m c' rs'
    end.

  (* the module-level store after a call history *)
  Fixpoint session_store (m : memo) (c : store) (rs : list request) : store :=
    match rs with
    | [] => c
    | r :: rs' => session_store m (fst (call m c r)) rs'
    end.
End Session.
