(* Model_config.v -- executable model of pydrex.io.parse_config (group `config`, C19).
   Hand-written (tie H): tied to /repo by the correspondence run of harness/props/c19.py
   (vm_compute of `show_result (parse_config V toml)` against the implementation) and, for
   every constant it uses, by the tables regenerated from the source on every run
   (gen/Gen_tables_params.v, tie T): DefaultParams().as_dict(), the enum members, the names
   `getattr(MineralPhase, _)` resolves, the tolerance literal of the sum test, the literal
   defaults of the optional [input] / [output] keys.

   Input  = the tree produced by the TOML reader (`tomllib.load`, an oracle).
   Floats = Coq primitive binary64 (PrimFloat): the sum-to-one test
              np.abs(np.sum(fractions) - 1.0) > 1e-16
            is decided by IEEE rounding (the doubles next to 1 are 1-2^-53 and 1+2^-52, so
            the test is in effect `float sum == 1.0`); exact rationals would classify e.g.
            [0.1]*10 differently from the implementation.  np.sum's pairwise summation
            order is modelled (np_sum).
   File loaders, path resolution, the velocity-gradient factories and the random default
   name are opaque tokens (VOpaque).
   No proofs in this file. *)
From Coq Require Import Floats ZArith String List Bool Ascii Uint63 DecimalString.
From PV.gen Require Import Gen_tables_params.
Import ListNotations.
Open Scope string_scope.

(* ---------------------------------------------------------------- errors *)
Inductive cerr := ConfigError | TypeErr | ValueErr | KeyErr | AttributeErr | Unmodelled.
Inductive cres (A : Type) := COk (a : A) | CErr (e : cerr).
Arguments COk {A}. Arguments CErr {A}.
Definition cbind {A B} (r : cres A) (f : A -> cres B) : cres B :=
  match r with COk a => f a | CErr e => CErr e end.
Notation "'do' x <- a ; b" := (cbind a (fun x => b)) (at level 200, x name, a at level 100, b at level 200).

Fixpoint mapM {A B} (f : A -> cres B) (l : list A) : cres (list B) :=
  match l with
  | [] => COk []
  | x :: r => do y <- f x; do ys <- mapM f r; COk (y :: ys)
  end.

(* ---------------------------------------------------------------- code variants
   Each flag switches one confirmed defect of the current tree on (true = behaviour of
   the unpatched source, false = behaviour after fixes/C19-*.patch).  The harness infers
   the flags from the implementation with one witness each and runs the correspondence
   against the inferred variant; theorems are about v_fixed, `_refuted` witnesses about
   the single-defect variants. *)
Record variant := mkV {
  v_getattr : bool;        (* phase names resolved with getattr(MineralPhase, s): non-members accepted *)
  v_int_phase : bool;      (* MineralPhase(int) : ValueError escapes (handler catches IndexError) *)
  v_builtin_input : bool;  (* error message subscripts the builtin `input`: TypeError escapes *)
  v_nan_ok : bool;         (* NaN sum passes `abs(sum - 1) > tol` *)
  v_out_paths : bool       (* `"paths" in _input` is always true: [output] paths always dropped *)
}.
Definition v_fixed := mkV false false false false false.
Definition v_pinned := mkV true true true true true.

(* ---------------------------------------------------------------- dictionaries *)
Definition table := list (string * value).

Fixpoint get (k : string) (t : table) : option value :=
  match t with
  | [] => None
  | (k', v) :: r => if String.eqb k k' then Some v else get k r
  end.
Definition getd (k : string) (t : table) (d : value) : value :=
  match get k t with Some v => v | None => d end.
Definition mem (k : string) (t : table) : bool :=
  match get k t with Some _ => true | None => false end.
(* d[k] = v : replace in place, else append (Python dict order) *)
Fixpoint dset (k : string) (v : value) (t : table) : table :=
  match t with
  | [] => [(k, v)]
  | (k', v') :: r => if String.eqb k k' then (k, v) :: r else (k', v') :: dset k v r
  end.

Fixpoint get_member (k : string) (t : list (string * Z)) : option Z :=
  match t with
  | [] => None
  | (k', v) :: r => if String.eqb k k' then Some v else get_member k r
  end.
Fixpoint member_of_val (z : Z) (t : list (string * Z)) : option string :=
  match t with
  | [] => None
  | (k, v) :: r => if Z.eqb z v then Some k else member_of_val z r
  end.
Definition in_strs (s : string) (l : list string) : bool := existsb (String.eqb s) l.

(* ---------------------------------------------------------------- binary64 *)
Open Scope float_scope.
Definition zf (z : Z) : float :=
  if (z <? 0)%Z then - (of_uint63 (Uint63.of_Z (- z))) else of_uint63 (Uint63.of_Z z).
Definition num_of (v : value) : option float :=
  match v with
  | VInt z => Some (zf z) | VFloat f => Some f | VBool b => Some (if b then 1 else 0)
  | _ => None
  end.
Definition is_num (v : value) : bool := match num_of v with Some _ => true | None => false end.
Fixpoint nums (l : list value) : option (list float) :=
  match l with
  | [] => Some []
  | v :: r => match num_of v, nums r with Some x, Some xs => Some (x :: xs) | _, _ => None end
  end.

(* numpy's pairwise summation of a contiguous float64 array (numpy/_core/src/umath/
   loops_utils.h.src, DOUBLE_pairwise_sum): < 8 sequential from -0.0; <= 128 eight
   accumulators; otherwise split at n/2 rounded down to a multiple of 8. *)
Fixpoint add_pointwise (r a : list float) : list float :=
  match r, a with
  | x :: r', y :: a' => (x + y) :: add_pointwise r' a'
  | _, _ => r
  end.
Fixpoint blocks (fuel : nat) (r l : list float) : list float * list float :=
  match fuel with
  | O => (r, l)
  | S f => if (8 <=? length l)%nat then blocks f (add_pointwise r (firstn 8 l)) (skipn 8 l) else (r, l)
  end.
Definition comb8 (r : list float) : float :=
  match r with
  | [r0; r1; r2; r3; r4; r5; r6; r7] => ((r0 + r1) + (r2 + r3)) + ((r4 + r5) + (r6 + r7))
  | _ => nan
  end.
Fixpoint pw_sum (fuel : nat) (l : list float) : float :=
  match fuel with
  | O => fold_left PrimFloat.add l (-0)
  | S f =>
    let n := length l in
    if (n <? 8)%nat then fold_left PrimFloat.add l (-0)
    else if (n <=? 128)%nat then
      let '(r, rest) := blocks n (firstn 8 l) (skipn 8 l) in
      fold_left PrimFloat.add rest (comb8 r)
    else
      let n2 := (n / 2 - (n / 2) mod 8)%nat in
      pw_sum f (firstn n2 l) + pw_sum f (skipn n2 l)
  end.
Definition np_sum (l : list float) : float := pw_sum (length l) l.

(* the guard of `raise ConfigError("Volume fractions ... must sum to 1")`, negated *)
Definition sum_ok (V : variant) (xs : list float) : bool :=
  let d := abs (np_sum xs - sum_target) in
  if V.(v_nan_ok) then negb (PrimFloat.ltb sum_tolerance d) else PrimFloat.leb d sum_tolerance.
Close Scope float_scope.

(* ---------------------------------------------------------------- sequences *)
Definition chars (s : string) : list value :=
  map (fun c => VStr (String c EmptyString)) (list_ascii_of_string s).

(* len(v) *)
Definition len_of (v : value) : cres nat :=
  match v with
  | VList l | VTuple l => COk (length l)
  | VStr s => COk (String.length s)
  | VTable t => COk (length t)
  | VInt _ | VFloat _ | VBool _ | VNone | VEnum _ _ _ => CErr TypeErr
  | _ => CErr Unmodelled
  end.
(* iteration *)
Definition seq_of (v : value) : cres (list value) :=
  match v with
  | VList l | VTuple l => COk l
  | VStr s => COk (chars s)
  | VInt _ | VFloat _ | VBool _ | VNone | VEnum _ _ _ => CErr TypeErr
  | _ => CErr Unmodelled
  end.

(* ---------------------------------------------------------------- [parameters] *)
Definition defaults_asdict : table := pc_asdict default_params.

Definition params_table (toml : table) : cres table :=
  match get "parameters" toml with
  | None => COk []
  | Some (VTable t) => COk t
  | Some _ => CErr AttributeErr          (* <non-dict>.get *)
  end.

(* for key, default in DefaultParams().as_dict().items(): _params[key] = _params.get(key, default) *)
Definition with_defaults (dflt p : table) : table :=
  fold_left (fun d kv => dset (fst kv) (getd (fst kv) d (snd kv)) d) dflt p.

Definition check_fractions (V : variant) (fr : value) : cres unit :=
  match fr with
  | VList l | VTuple l =>
    match nums l with
    | Some xs => if sum_ok V xs then COk tt else CErr ConfigError
    | None => CErr Unmodelled             (* strings: TypeError; nested arrays: summed; not modelled *)
    end
  | VInt _ | VFloat _ | VBool _ =>
    match num_of fr with
    | Some x => if sum_ok V [x] then COk tt else CErr ConfigError
    | None => CErr Unmodelled
    end
  | _ => CErr Unmodelled
  end.

Definition phase_of_int (V : variant) (z : Z) : cres value :=
  match member_of_val z phase_members with
  | Some n => COk (VEnum "MineralPhase" n z)
  | None => if V.(v_int_phase) then CErr ValueErr else CErr ConfigError
  end.

(* getattr(MineralPhase, s) [variant] / MineralPhase[s] *)
Definition phase_of_name (V : variant) (s : string) : cres value :=
  match get_member s phase_members with
  | Some z => COk (VEnum "MineralPhase" s z)
  | None => if V.(v_getattr) && in_strs s phase_attr_junk then COk (VJunk s) else CErr ConfigError
  end.

Definition parse_phase (V : variant) (v : value) : cres value :=
  match v with
  | VStr s => phase_of_name V s
  | VEnum cls n z =>
    (* isinstance(x, MineralPhase): only reachable through the defaults; a VEnum that is not a
       member of the generated table denotes no Python object *)
    if String.eqb cls "MineralPhase"
    then match get_member n phase_members with
         | Some z' => if Z.eqb z z' then COk v else CErr Unmodelled
         | None => CErr Unmodelled
         end
    else phase_of_int V z
  | VInt z => phase_of_int V z
  | VBool b => phase_of_int V (if b then 1 else 0)%Z
  | _ => CErr ConfigError
  end.

Definition parse_fabric (v : value) : cres value :=
  match v with
  | VEnum cls n z =>
    if String.eqb cls "MineralFabric"
    then match get_member n fabric_members with
         | Some z' => if Z.eqb z z' then COk v else CErr Unmodelled
         | None => CErr Unmodelled
         end
    else CErr ConfigError
  | VStr s =>
    match get_member ("olivine_" ++ s) fabric_members with
    | Some z => COk (VEnum "MineralFabric" ("olivine_" ++ s) z)
    | None => CErr ConfigError
    end
  | _ => CErr ConfigError
  end.

Definition n_coefficients : nat :=
  match get "disl_coefficients" (pc_instance default_params) with
  | Some (VTuple l) => length l
  | _ => O
  end.

Definition parse_coefficients (v : value) : cres value :=
  do n <- len_of v;
  if negb (Nat.eqb n n_coefficients) then CErr ConfigError
  else match v with
       | VList l | VTuple l => COk (VTuple l)
       | VStr s => COk (VTuple (chars s))
       | _ => CErr Unmodelled
       end.

Definition parse_params_table (V : variant) (p0 : table) : cres table :=
  let p := with_defaults defaults_asdict p0 in
  let fr := getd "phase_fractions" p VNone in
  let pa := getd "phase_assemblage" p VNone in
  do _ <- check_fractions V fr;
  do la <- len_of pa;
  do lf <- len_of fr;
  if negb (Nat.eqb la lf) then CErr ConfigError else
  do elems <- seq_of pa;
  do phs <- mapM (parse_phase V) elems;
  let p := dset "phase_assemblage" (VTuple phs) p in
  do fab <- parse_fabric (getd "initial_olivine_fabric" p VNone);
  let p := dset "initial_olivine_fabric" fab p in
  do co <- parse_coefficients (getd "disl_coefficients" p VNone);
  COk (dset "disl_coefficients" co p).

Definition parse_params (V : variant) (toml : table) : cres table :=
  do p0 <- params_table toml; parse_params_table V p0.

(* ---------------------------------------------------------------- [input] *)
Definition input_default (k : string) : value := getd k input_get_defaults VNone.

Definition numeric_or_raise (V : variant) (v : value) : cres unit :=
  if is_num v then COk tt
  else if V.(v_builtin_input) then CErr TypeErr else CErr ConfigError.

Definition parse_input_common (V : variant) (toml : table) : cres table :=
  match get "input" toml with
  | None => CErr ConfigError
  | Some (VTable i) =>
    if negb (mem "timestep" i) && negb (mem "paths" i) then CErr ConfigError else
    let i := dset "timestep" (getd "timestep" i (input_default "timestep")) i in
    do _ <- numeric_or_raise V (getd "timestep" i VNone);
    let i := dset "strain_final" (getd "strain_final" i (input_default "strain_final")) i in
    do _ <- numeric_or_raise V (getd "strain_final" i VNone);
    COk i
  | Some _ => CErr Unmodelled
  end.

(* resolve_path(v, path.parent) *)
Definition resolve (v : value) : cres value :=
  match v with VStr _ => COk (VOpaque "path" [v]) | _ => CErr Unmodelled end.
Definition load (tag : string) (v : value) : cres value :=
  do p <- resolve v; COk (VOpaque tag [p]).

Definition parse_mode (i : table) : cres table :=
  if mem "mesh" i then
    do m <- load "meshio.read" (getd "mesh" i VNone);
    let i := dset "mesh" m i in
    match get "locations_final" i with
    | None => CErr KeyErr
    | Some lf =>
      do l <- load "read_scsv" lf;
      let i := dset "locations_final" l i in
      COk (dset "paths" VNone (dset "locations_initial" VNone (dset "velocity_gradient" VNone i)))
    end
  else if mem "velocity_gradient" i then
    match getd "velocity_gradient" i VNone with
    | VList (VStr f :: args) =>
      if in_strs f velocity_factories then
        let i := dset "velocity_gradient" (VOpaque ("velocity." ++ f) args) i in
        match get "locations_initial" i with
        | None => CErr KeyErr
        | Some li =>
          do l <- load "read_scsv" li;
          let i := dset "locations_initial" l i in
          COk (dset "mesh" VNone (dset "paths" VNone (dset "locations_final" VNone i)))
        end
      else CErr Unmodelled
    | _ => CErr Unmodelled
    end
  else if mem "paths" i then
    match getd "paths" i VNone with
    | VList ps =>
      do ls <- mapM (load "np.load") ps;
      let i := dset "paths" (VList ls) i in
      COk (dset "mesh" VNone (dset "locations_final" VNone (dset "locations_initial" VNone i)))
    | _ => CErr Unmodelled
    end
  else COk (dset "paths" VNone i).

(* ---------------------------------------------------------------- [output] *)
Definition output_default (k : string) : value := getd k output_get_defaults (VOpaque "missing-default" []).

(* == between parsed phases (IntEnum compares by value) *)
Definition phase_eqb (a b : value) : bool :=
  match a, b with
  | VEnum _ _ x, VEnum _ _ y => Z.eqb x y
  | VJunk s, VJunk t => String.eqb s t
  | _, _ => false
  end.

Definition output_phase (V : variant) (e : value) : cres value :=
  match e with
  | VStr s => phase_of_name V s
  | _ => CErr TypeErr                     (* getattr(): attribute name must be string *)
  end.

Definition output_options (V : variant) (o : table) (level : string) (assemblage : list value) : cres table :=
  match get level o with
  | None => COk (dset level (VList assemblage) o)
  | Some v =>
    match (do elems <- seq_of v; mapM (output_phase V) elems) with
    | COk phs =>
      if forallb (fun p => existsb (phase_eqb p) assemblage) phs
      then COk (dset level (VList phs) o) else CErr ConfigError
    | CErr TypeErr =>
      (* getattr(MineralPhase, <non-str>) / iterating a scalar: TypeError escapes `except
         AttributeError`; with MineralPhase[x] + `except (KeyError, TypeError)` it does not *)
      if V.(v_getattr) then CErr TypeErr else CErr ConfigError
    | CErr e => CErr e
    end
  end.

Definition is_none (v : value) : bool := match v with VNone => true | _ => false end.

(* toml.setdefault("output", {}) *)
Definition output_table (toml : table) : cres table :=
  match get "output" toml with
  | None => COk []
  | Some (VTable t) => COk t
  | Some _ => CErr Unmodelled
  end.

Definition parse_output (V : variant) (toml : table) (assemblage : list value) (i : table) : cres table :=
  do o <- output_table toml;
  do dir <- match get "directory" o with
            | Some d => resolve d
            | None => COk (VOpaque "cwd" [])
            end;
  let o := dset "directory" dir o in
  do o <- output_options V o "raw_output" assemblage;
  do o <- output_options V o "diagnostics" assemblage;
  let o := dset "anisotropy" (getd "anisotropy" o (output_default "anisotropy")) o in
  let have_input_paths := if V.(v_out_paths) then mem "paths" i else negb (is_none (getd "paths" i VNone)) in
  let o := if have_input_paths && mem "paths" o then dset "paths" VNone o else o in
  let o := dset "paths" (getd "paths" o (output_default "paths")) o in
  COk (dset "log_level" (getd "log_level" o (output_default "log_level")) o).

(* ---------------------------------------------------------------- parse_config *)
Record config := mkConfig { c_name : value; c_params : table; c_input : table; c_output : table }.

Definition assemblage_of (p : table) : list value :=
  match get "phase_assemblage" p with Some (VTuple l) => l | _ => [] end.

Definition parse_config (V : variant) (toml : table) : cres config :=
  let name := getd "name" toml (VOpaque "random_name" []) in
  do p <- parse_params V toml;
  do i0 <- parse_input_common V toml;
  do i <- parse_mode i0;
  do o <- parse_output V toml (assemblage_of p) i;
  COk (mkConfig name p i o).

(* ---------------------------------------------------------------- printing (correspondence) *)
Definition show_Z (z : Z) : string := NilZero.string_of_int (Z.to_int z).
Definition q (s : string) : string := """" ++ s ++ """".
Definition show_float (f : float) : string :=
  match Prim2SF f with
  | S754_zero s => "[""f"",""zero""," ++ (if s then "1" else "0") ++ "]"
  | S754_infinity s => "[""f"",""inf""," ++ (if s then "1" else "0") ++ "]"
  | S754_nan => "[""f"",""nan""]"
  | S754_finite s m e => "[""f"",""fin""," ++ (if s then "1" else "0") ++ "," ++ q (show_Z (Zpos m)) ++ "," ++ q (show_Z e) ++ "]"
  end.
Definition join (l : list string) : string :=
  match l with
  | [] => ""
  | x :: r => fold_left (fun a b => a ++ "," ++ b) r x
  end.
Fixpoint show (v : value) : string :=
  match v with
  | VInt z => "[""i""," ++ q (show_Z z) ++ "]"
  | VFloat f => show_float f
  | VStr s => "[""s""," ++ q s ++ "]"
  | VBool b => "[""b""," ++ (if b then "1" else "0") ++ "]"
  | VNone => "[""n""]"
  | VList l => "[""l"",[" ++ join (map show l) ++ "]]"
  | VTuple l => "[""t"",[" ++ join (map show l) ++ "]]"
  | VTable t => "[""d"",[" ++ join (map (fun kv => let '(k, x) := kv in "[" ++ q k ++ "," ++ show x ++ "]") t) ++ "]]"
  | VEnum c n z => "[""e""," ++ q c ++ "," ++ q n ++ "," ++ q (show_Z z) ++ "]"
  | VJunk s => "[""j""," ++ q s ++ "]"
  | VOpaque t a => "[""o""," ++ q t ++ ",[" ++ join (map show a) ++ "]]"
  end.
Definition show_err (e : cerr) : string :=
  match e with
  | ConfigError => "ConfigError" | TypeErr => "TypeError" | ValueErr => "ValueError"
  | KeyErr => "KeyError" | AttributeErr => "AttributeError" | Unmodelled => "Unmodelled"
  end.
Definition show_result (r : cres config) : string :=
  match r with
  | COk c => "[""ok""," ++ show c.(c_name) ++ "," ++ show (VTable c.(c_params)) ++ ","
             ++ show (VTable c.(c_input)) ++ "," ++ show (VTable c.(c_output)) ++ "]"
  | CErr e => "[""err""," ++ q (show_err e) ++ "]"
  end.

(* ---------------------------------------------------------------- comparison (correspondence)
   The harness translates the implementation's canonicalised result into a `cres config`
   term and evaluates `result_eqb (parse_config V toml) expected` by vm_compute (printing
   whole results costs 0.1 s per case); `show_result` is used for the diagnostics of
   disagreeing cases only.  Floats are compared bit-wise (sign of zero included, all NaNs
   identified); top-level tables as finite maps (order-insensitive), inner tables in order. *)
Definition float_eqb (x y : float) : bool :=
  match Prim2SF x, Prim2SF y with
  | S754_zero s, S754_zero s' => Bool.eqb s s'
  | S754_infinity s, S754_infinity s' => Bool.eqb s s'
  | S754_nan, S754_nan => true
  | S754_finite s m e, S754_finite s' m' e' => Bool.eqb s s' && Pos.eqb m m' && Z.eqb e e'
  | _, _ => false
  end.

Fixpoint value_eqb (a b : value) {struct a} : bool :=
  let fix list_eqb (l l' : list value) {struct l} : bool :=
    match l, l' with
    | [], [] => true
    | x :: r, y :: r' => value_eqb x y && list_eqb r r'
    | _, _ => false
    end in
  let fix tab_eqb (l l' : list (string * value)) {struct l} : bool :=
    match l, l' with
    | [], [] => true
    | (k, x) :: r, (k', y) :: r' => String.eqb k k' && value_eqb x y && tab_eqb r r'
    | _, _ => false
    end in
  match a, b with
  | VInt x, VInt y => Z.eqb x y
  | VFloat x, VFloat y => float_eqb x y
  | VStr x, VStr y => String.eqb x y
  | VBool x, VBool y => Bool.eqb x y
  | VNone, VNone => true
  | VList l, VList l' => list_eqb l l'
  | VTuple l, VTuple l' => list_eqb l l'
  | VTable t, VTable t' => tab_eqb t t'
  | VEnum c n z, VEnum c' n' z' => String.eqb c c' && String.eqb n n' && Z.eqb z z'
  | VJunk x, VJunk y => String.eqb x y
  | VOpaque t l, VOpaque t' l' => String.eqb t t' && list_eqb l l'
  | _, _ => false
  end.

Definition map_eqb (a b : table) : bool :=
  Nat.eqb (length a) (length b) &&
  forallb (fun kv => match get (fst kv) b with Some v => value_eqb (snd kv) v | None => false end) a.

Definition cerr_eqb (a b : cerr) : bool :=
  match a, b with
  | ConfigError, ConfigError | TypeErr, TypeErr | ValueErr, ValueErr | KeyErr, KeyErr
  | AttributeErr, AttributeErr => true
  | _, _ => false           (* Unmodelled never agrees *)
  end.

Definition result_eqb (m e : cres config) : bool :=
  match m, e with
  | COk a, COk b => value_eqb a.(c_name) b.(c_name) && map_eqb a.(c_params) b.(c_params)
                    && map_eqb a.(c_input) b.(c_input) && map_eqb a.(c_output) b.(c_output)
  | CErr x, CErr y => cerr_eqb x y
  | _, _ => false
  end.
