(* Proofs_mindex_gen.v -- theorems about the GENERATED code of the misorientation-index pipeline
   (coq/gen/Gen_mindex.v), obtained from the theorems about Model_mindex through the instance
   lemmas of Inst_mindex*.v; and further facts about the operator lists and the product the
   source computes. *)
From Coq Require Import Reals ZArith List Bool Lra Lia Permutation.
From Interval Require Import Tactic.
From PV Require Import Num NumR Model_mindex Proofs_mindex Proofs_mindex_mass Proofs_mindex_hist
  Proofs_mindex_single Proofs_mindex_single_thm
  Inst_mindex Inst_mindex_random Inst_mindex_random_o Inst_mindex_random_r Inst_mindex_random_t
  Inst_mindex_random_h Inst_mindex_index.
From PV.gen Require Import Gen_mindex.
Import ListNotations.
Open Scope R_scope.

(* ------------------------------------------------------------------------- *)
(* the generated density on the unit bins                                     *)
(* ------------------------------------------------------------------------- *)
(* the theoretical histogram misorientation_index builds: one generated call per unit bin *)
Definition gen_random (s : Lattice) : R -> R -> res R :=
  match s with
  | Triclinic => @k_misorientations_random_triclinic NumR
  | Monoclinic => @k_misorientations_random_monoclinic NumR
  | Orthorhombic => @k_misorientations_random_orthorhombic NumR
  | Rhombohedral => @k_misorientations_random_rhombohedral NumR
  | Tetragonal => @k_misorientations_random_tetragonal NumR
  | Hexagonal => @k_misorientations_random_hexagonal NumR
  end.
Definition gen_index (s : Lattice) : arr R -> res R :=
  match s with
  | Triclinic => @k_misorientation_index_triclinic NumR
  | Monoclinic => @k_misorientation_index_monoclinic NumR
  | Orthorhombic => @k_misorientation_index_orthorhombic NumR
  | Rhombohedral => @k_misorientation_index_rhombohedral NumR
  | Tetragonal => @k_misorientation_index_tetragonal NumR
  | Hexagonal => @k_misorientation_index_hexagonal NumR
  end.
Definition gen_theory (s : Lattice) : res (list R) :=
  collect (map (fun k => gen_random s (IZR (Z.of_nat k)) (IZR (Z.of_nat (S k)))) (seq 0 (theta_max s))).

Lemma gen_random_inst s low high : gen_random s low high = @misorientations_random NumR low high s.
Proof.
  destruct s; cbn [gen_random];
    [ apply random_inst_triclinic | apply random_inst_monoclinic | apply random_inst_orthorhombic
    | apply random_inst_rhombohedral | apply random_inst_tetragonal | apply random_inst_hexagonal ].
Qed.

Lemma gen_theory_inst s : gen_theory s = @theory NumR s.
Proof. unfold gen_theory, theory. apply f_equal. apply map_ext. intros k. apply gen_random_inst. Qed.

Lemma gen_index_inst s (obs : list R) : length obs = theta_max s ->
  gen_index s (mk_arr 0 obs) =
  match @theory NumR s with Err e => Err e | Ok th => Ok (@m_of NumR (theta_max s) th obs) end.
Proof.
  destruct s; cbn [gen_index theta_max]; intros H;
    [ now apply index_inst_triclinic | now apply index_inst_monoclinic | now apply index_inst_orthorhombic
    | now apply index_inst_rhombohedral | now apply index_inst_tetragonal | now apply index_inst_hexagonal ].
Qed.

Lemma gen_index_hist s (angs : list R) :
  gen_index s (mk_arr 0 (@hist_density NumR (theta_max s) angs)) = @mindex_of_angles NumR s angs.
Proof. rewrite gen_index_inst by apply hist_density_length. reflexivity. Qed.

(* mass of the generated density: the three systems where it is 1 +- 1e-3 *)
Theorem gen_theory_mass s : good_mass s ->
  exists th, gen_theory s = Ok th /\ Forall (Rle 0) th /\ Rabs (rsum th - 1) <= 1 / 1000.
Proof. rewrite gen_theory_inst. apply theory_mass_partial. Qed.

(* the generated rhombohedral density raises on the bin [104, 105] *)
Theorem gen_rhombohedral_raises : exists e, gen_theory Rhombohedral = Err e.
Proof. rewrite gen_theory_inst. apply theory_rhombohedral_error. Qed.

(* the range check of the generated code *)
Theorem gen_random_value_error s (low high : R) :
  low < 0 \/ high < low \/ IZR (Z.of_nat (theta_max s)) < high -> gen_random s low high = Err ValueError.
Proof.
  intros H. rewrite gen_random_inst. unfold misorientations_random. numR.
  replace (Rleb 0 low && Rleb low high && Rleb high (IZR (Z.of_nat (theta_max s)))) with false; [reflexivity|].
  symmetry. destruct H as [H|[H|H]].
  - replace (Rleb 0 low) with false by (symmetry; now apply Rleb_false). reflexivity.
  - replace (Rleb low high) with false by (symmetry; now apply Rleb_false). now rewrite andb_false_r.
  - replace (Rleb high (IZR (Z.of_nat (theta_max s)))) with false by (symmetry; now apply Rleb_false).
    now rewrite andb_false_r.
Qed.

(* ------------------------------------------------------------------------- *)
(* range of the generated index                                              *)
(* ------------------------------------------------------------------------- *)
(* ANY histogram (non-negative, mass 1, n > 0 bins) against ANY non-negative density of mass 1:
   the Skemer sum is in [0, 1] *)
Theorem mindex_unit_abstract n (th obs : list R) : (0 < n)%nat -> length obs = n ->
  Forall (Rle 0) th -> Forall (Rle 0) obs -> rsum th = 1 -> rsum obs = 1 ->
  0 <= @m_of NumR n th obs <= 1.
Proof.
  intros Hn Hlen Ht Ho St So.
  pose proof (mindex_range_abstract n th obs Ht Ho) as H. cbv zeta in H.
  change (T NumR) with R in *. rewrite Hlen, St, So in H.
  assert (E: IZR (Z.of_nat n) / IZR (2 * Z.of_nat n) = 1 / 2).
  { rewrite mult_IZR. assert (0 < IZR (Z.of_nat n)) by (apply IZR_lt; lia). field. lra. }
  rewrite E in H. lra.
Qed.

(* the generated index: any normalised histogram with theta_max bins *)
Theorem gen_index_range s (obs th : list R) m :
  length obs = theta_max s -> Forall (Rle 0) obs -> rsum obs = 1 ->
  gen_theory s = Ok th -> Forall (Rle 0) th ->
  gen_index s (mk_arr 0 obs) = Ok m ->
  m = @m_of NumR (theta_max s) th obs /\ 0 <= m <= (1 + rsum th) / 2.
Proof.
  intros Hlen Ho So Hth Ht Hm. rewrite gen_theory_inst in Hth.
  rewrite gen_index_inst, Hth in Hm by assumption.
  assert (Em: m = @m_of NumR (theta_max s) th obs) by congruence. split; [exact Em|]. rewrite Em. clear Em Hm.
  pose proof (mindex_range_abstract (theta_max s) th obs Ht Ho) as H. cbv zeta in H.
  change (T NumR) with R in *. rewrite Hlen, So in H.
  assert (E: IZR (Z.of_nat (theta_max s)) / IZR (2 * Z.of_nat (theta_max s)) = 1 / 2).
  { rewrite mult_IZR. assert (0 < IZR (Z.of_nat (theta_max s))) by (apply IZR_lt; destruct s; cbn; lia). field. lra. }
  rewrite E in H. lra.
Qed.

Theorem gen_index_unit_interval s (obs : list R) m : good_mass s ->
  length obs = theta_max s -> Forall (Rle 0) obs -> rsum obs = 1 ->
  gen_index s (mk_arr 0 obs) = Ok m -> 0 <= m <= 1 + 5 / 10000.
Proof.
  intros Hs Hlen Ho So Hm. destruct (gen_theory_mass s Hs) as (th & Hth & Hnn & Hmass).
  destruct (gen_index_range s obs th m Hlen Ho So Hth Hnn Hm) as [_ [A B]].
  unfold Rabs in Hmass. destruct (Rcase_abs (rsum th - 1)); lra.
Qed.

(* ------------------------------------------------------------------------- *)
(* the whole generated pipeline for 2 and 3 grains                            *)
(* ------------------------------------------------------------------------- *)
(* hist data -> np.histogram (Model_mindex.hist_density, tie H) -> generated index
   = the model's index of the quaternions with the Dropped product *)
Definition gen_pipeline (s : Lattice) (npairs : nat) (data : arr R) : res R :=
  gen_index s (mk_arr 0 (@hist_density NumR (theta_max s) (arr_to_list npairs data))).

Lemma arr_to_list_mk {X} (d : X) (l : list X) : arr_to_list (length l) (mk_arr d l) = l.
Proof.
  unfold arr_to_list, mk_arr. induction l as [|a l IH]; [reflexivity|].
  cbn [length seq map nth]. f_equal. rewrite <- seq_shift, map_map. exact IH.
Qed.

Ltac pipe_tac H :=
  intros; unfold gen_pipeline; rewrite H;
  match goal with |- context [arr_to_list ?n (mk_arr ?d ?l)] =>
    change (arr_to_list n (mk_arr d l)) with (@arr_to_list R (@length R l) (@mk_arr R d l));
    rewrite (@arr_to_list_mk R d l)
  end;
  rewrite gen_index_hist; reflexivity.

Theorem gen_pipeline_triclinic_n3 (quats : arr R) :
  gen_pipeline Triclinic 3 (@k_misorientation_hist_data_triclinic_n3 NumR quats) =
  @mindex_quats NumR Dropped Triclinic [qat quats 0; qat quats 4; qat quats 8].
Proof. pipe_tac hist_data_inst_triclinic_n3. Qed.
Theorem gen_pipeline_monoclinic_n3 (quats : arr R) :
  gen_pipeline Monoclinic 3 (@k_misorientation_hist_data_monoclinic_n3 NumR quats) =
  @mindex_quats NumR Dropped Monoclinic [qat quats 0; qat quats 4; qat quats 8].
Proof. pipe_tac hist_data_inst_monoclinic_n3. Qed.
Theorem gen_pipeline_orthorhombic_n2 (quats : arr R) :
  gen_pipeline Orthorhombic 1 (@k_misorientation_hist_data_orthorhombic_n2 NumR quats) =
  @mindex_quats NumR Dropped Orthorhombic [qat quats 0; qat quats 4].
Proof. pipe_tac hist_data_inst_orthorhombic_n2. Qed.
Theorem gen_pipeline_orthorhombic_n3 (quats : arr R) :
  gen_pipeline Orthorhombic 3 (@k_misorientation_hist_data_orthorhombic_n3 NumR quats) =
  @mindex_quats NumR Dropped Orthorhombic [qat quats 0; qat quats 4; qat quats 8].
Proof. pipe_tac hist_data_inst_orthorhombic_n3. Qed.
Theorem gen_pipeline_rhombohedral_n3 (quats : arr R) :
  gen_pipeline Rhombohedral 3 (@k_misorientation_hist_data_rhombohedral_n3 NumR quats) =
  @mindex_quats NumR Dropped Rhombohedral [qat quats 0; qat quats 4; qat quats 8].
Proof. pipe_tac hist_data_inst_rhombohedral_n3. Qed.
Theorem gen_pipeline_tetragonal_n3 (quats : arr R) :
  gen_pipeline Tetragonal 3 (@k_misorientation_hist_data_tetragonal_n3 NumR quats) =
  @mindex_quats NumR Dropped Tetragonal [qat quats 0; qat quats 4; qat quats 8].
Proof. pipe_tac hist_data_inst_tetragonal_n3. Qed.
Theorem gen_pipeline_hexagonal_n2 (quats : arr R) :
  gen_pipeline Hexagonal 1 (@k_misorientation_hist_data_hexagonal_n2 NumR quats) =
  @mindex_quats NumR Dropped Hexagonal [qat quats 0; qat quats 4].
Proof. pipe_tac hist_data_inst_hexagonal_n2. Qed.

(* ------------------------------------------------------------------------- *)
(* what the product of the source does: the norm loses the squared cross term *)
(* ------------------------------------------------------------------------- *)
Definition cross2 (p q : Q4) : R :=
  let '(x1, y1, z1, _) := p in let '(x2, y2, z2, _) := q in
  (y1 * z2 - z1 * y2) * (y1 * z2 - z1 * y2) + (z1 * x2 - x1 * z2) * (z1 * x2 - x1 * z2)
  + (x1 * y2 - y1 * x2) * (x1 * y2 - y1 * x2).

Theorem dropped_norm_defect (p q : Q4) :
  qnorm2 (@qprod NumR Dropped p q) = qnorm2 p * qnorm2 q - cross2 p q.
Proof. dq p; dq q; unfold qnorm2, cross2; qunf; ring. Qed.

(* so the generated product preserves the norm exactly when the vector parts are parallel *)
Corollary gen_product_norm (q1 q2 : arr R) :
  qnorm2 (qat (@k_quat_product NumR q1 q2) 0) = qnorm2 (qat q1 0) * qnorm2 (qat q2 0) - cross2 (qat q1 0) (qat q2 0).
Proof. rewrite quat_product_inst. apply dropped_norm_defect. Qed.

(* the identity operator is applied correctly by the Dropped product (its vector part is 0) *)
Lemma dropped_identity (q : Q4) : @qprod NumR Dropped qid q = q.
Proof. dq q; unfold qid; qunf; split4; ring. Qed.

(* ------------------------------------------------------------------------- *)
(* the operator lists: unit quaternions; their number; closure                *)
(* ------------------------------------------------------------------------- *)
Lemma rotq_unit ax k n : qnorm2 (@rotq NumR ax k n) = 1.
Proof.
  unfold rotq, qnorm2. numR. set (t := IZR k * PI / IZR n / IZR 2).
  pose proof (sin2_cos2 t) as H. unfold Rsqr in H.
  destruct ax as [|[|ax]]; cbv [qdot qx qy qz qw fst snd]; numR; lra.
Qed.

Theorem symops_unit s (q : Q4) : In (@Rot NumR q) (@symmetry_operations NumR s) -> qnorm2 q = 1.
Proof.
  assert (Hid: qnorm2 (@qid NumR) = 1) by (unfold qnorm2, qid; qunf; ring).
  assert (Hr: forall n ks, In (Rot q) (@rots NumR n ks) -> qnorm2 q = 1).
  { intros n ks H. unfold rots in H. apply in_flat_map in H as (ax & _ & H).
    apply in_map_iff in H as (k & E & _). inversion E. apply rotq_unit. }
  intros H. destruct s; cbn [symmetry_operations] in H.
  - destruct H as [E|[]]. inversion E. exact Hid.
  - destruct H as [E|H]; [inversion E; exact Hid|]. apply in_app_or in H as [H|H]; [now apply Hr in H|].
    cbn in H. repeat (destruct H as [E|H]; [discriminate E|]). destruct H.
  - destruct H as [E|H]; [inversion E; exact Hid|]. apply in_app_or in H as [H|H]; [now apply Hr in H|].
    cbn in H. repeat (destruct H as [E|H]; [discriminate E|]). destruct H.
  - destruct H as [E|H]; [inversion E; exact Hid|]. now apply Hr in H.
  - destruct H as [E|H]; [inversion E; exact Hid|]. now apply Hr in H.
  - destruct H as [E|H]; [inversion E; exact Hid|]. apply in_app_or in H as [H|H]; now apply Hr in H.
Qed.

(* number of operators per system, against the order N of the proper point group (Grimmer's b) *)
Theorem symops_count :
  map (fun s => length (@symmetry_operations NumR s))
      [Triclinic; Monoclinic; Orthorhombic; Rhombohedral; Tetragonal; Hexagonal] = [1; 7; 7; 7; 10; 16]%nat /\
  map (fun s => snd (lattice_MN s))
      [Triclinic; Monoclinic; Orthorhombic; Rhombohedral; Tetragonal; Hexagonal] = [1; 2; 4; 6; 8; 12]%Z.
Proof. split; reflexivity. Qed.

Theorem symops_order_refuted s : s <> Triclinic ->
  Z.of_nat (length (@symmetry_operations NumR s)) <> snd (lattice_MN s).
Proof. destruct s; intros H; try congruence; cbn; lia. Qed.

(* the rotation about z by pi/3 followed by the one by 2 pi/3 is the half turn about z, which is
   (up to sign) none of the listed operators: scalar part 0 against scalar parts >= cos(5 pi / 12) > 0.2 *)
Definition not_closed (ops : list OP) : Prop :=
  exists p q : Q4, In (Rot p) ops /\ In (Rot q) ops /\
    forall u, In (Rot u) ops -> hmul p q <> u /\ hmul p q <> qneg u.

Ltac w_differs :=
  let E := fresh "E" in
  split; intros E; apply (f_equal (@qw NumR)) in E; revert E;
  cbv [hmul qprod qneg qw qx qy qz fst snd rotq qid]; numR; intros E;
  match type of E with ?a = ?b =>
    assert (Rabs a <= 1 / 1000) by interval;
    assert (2 / 10 <= Rabs b) by interval;
    rewrite E in *; lra
  end.

Lemma rhombohedral_not_closed : not_closed (@symmetry_operations NumR Rhombohedral).
Proof.
  exists (@rotq NumR 2 1 3), (@rotq NumR 2 2 3).
  split; [cbn; tauto|]. split; [cbn; tauto|].
  intros u Hu. cbn [symmetry_operations rots flat_map map app In] in Hu.
  repeat (destruct Hu as [Hu|Hu]; [injection Hu as <-; w_differs|]). destruct Hu.
Qed.

Lemma hexagonal_not_closed : not_closed (@symmetry_operations NumR Hexagonal).
Proof.
  exists (@rotq NumR 2 1 3), (@rotq NumR 2 2 3).
  split; [cbn; tauto|]. split; [cbn; tauto|].
  intros u Hu. cbn [symmetry_operations rots flat_map map app In] in Hu.
  repeat (destruct Hu as [Hu|Hu]; [injection Hu as <-; w_differs|]). destruct Hu.
Qed.

(* tetragonal: quarter turn about z then quarter turn about x is a third turn about a body diagonal:
   all four components have modulus 1/2, every listed operator has two vanishing components *)
Ltac comp_differs proj :=
  let E := fresh "E" in
  intros E; apply (f_equal proj) in E; revert E;
  cbv [hmul qprod qneg qw qx qy qz fst snd rotq qid]; numR; intros E;
  match type of E with ?a = ?b =>
    assert (4 / 10 <= Rabs a) by interval;
    assert (Rabs b <= 1 / 1000) by interval;
    rewrite E in *; lra
  end.

Lemma tetragonal_not_closed : not_closed (@symmetry_operations NumR Tetragonal).
Proof.
  exists (@rotq NumR 2 1 2), (@rotq NumR 0 1 2).
  split; [cbn; tauto|]. split; [cbn; tauto|].
  intros u Hu. cbn [symmetry_operations rots flat_map map app In] in Hu.
  repeat (destruct Hu as [Hu|Hu];
          [injection Hu as <-;
           first [ split; comp_differs (@qx NumR) | split; comp_differs (@qy NumR) | split; comp_differs (@qz NumR) ]|]).
  destruct Hu.
Qed.
