(* Proofs_spec.v -- C02: the generated kernels equal the published D-Rex equations
   (Spec_drex.v), piece by piece and composed. *)
From Coq Require Import Reals ZArith List Bool Lra Lia.
From PV Require Import Num NumR Model_core Spec_drex Proofs_core Proofs_total.
From PV.gen Require Import Gen_core.
Import ListNotations.
Open Scope R_scope.

Lemma arr_eq4 (z a0 a1 a2 a3 b0 b1 b2 b3 : R) :
  a0 = b0 -> a1 = b1 -> a2 = b2 -> a3 = b3 ->
  mk_arr z [a0; a1; a2; a3] = mk_arr z [b0; b1; b2; b3].
Proof. intros; subst; reflexivity. Qed.

Lemma arr_eq9 (z a0 a1 a2 a3 a4 a5 a6 a7 a8 b0 b1 b2 b3 b4 b5 b6 b7 b8 : R) :
  a0 = b0 -> a1 = b1 -> a2 = b2 -> a3 = b3 -> a4 = b4 -> a5 = b5 -> a6 = b6 -> a7 = b7 -> a8 = b8 ->
  mk_arr z [a0; a1; a2; a3; a4; a5; a6; a7; a8] = mk_arr z [b0; b1; b2; b3; b4; b5; b6; b7; b8].
Proof. intros; subst; reflexivity. Qed.

Ltac spec_unfold :=
  cbv [spec_invariants spec_invariant spec_schmid spec_rate spec_spin spec_gamma0 frob sym2 skw2 e2
       row dot mvec cross vnth sys_l sys_n Nat.add Nat.mul eps15].

(* I_s = l^_s . D n^_s, all four systems (no symmetry of D needed) *)
Lemma invariants_eq_spec (D A : RA) : k_get_slip_invariants D A = spec_invariants D A.
Proof.
  unfold k_get_slip_invariants; spec_unfold; numR. apply arr_eq4; ring.
Qed.

(* G = 2 sum_s beta_s l^_s (x) n^_s *)
Lemma schmid_eq_spec ph (A b : RA) : k_get_deformation_rate ph A b = spec_schmid A b.
Proof.
  unfold k_get_deformation_rate; spec_unfold; numR. apply arr_eq9; ring.
Qed.

(* rows of dA/dt = w x a_i with w = axial(skew L - g skew G) *)
Lemma orientation_change_eq_spec (A L G : RA) g :
  k_get_orientation_change A L G g = spec_rate A G L g.
Proof.
  unfold k_get_orientation_change; spec_unfold; numR. apply arr_eq9; field.
Qed.

(* softest-system slip rate = Frobenius least-squares fit of sym L by g sym G *)
Lemma softest_eq_spec (G L : RA) : k_get_slip_rate_softest G L = Ok (spec_gamma0 G L).
Proof.
  unfold k_get_slip_rate_softest; spec_unfold; numR.
  match goal with |- context [Rltb _ ?d] => set (den := d) end.
  match goal with |- context [Rltb (-?e) (2 * ?d2)] => set (den2 := d2); set (ee := e) end.
  assert (Hd : den = 2 * den2) by (subst den den2; field).
  assert (He : - ee = -2535301200456459 / 2535301200456458802993406410752) by (subst ee; field).
  rewrite <- Hd, He.
  destruct (Rltb _ den) eqn:H1; destruct (Rltb den _) eqn:H2; cbn [andb]; try reflexivity;
  (destruct (Reqb den 0) eqn:H3; bool2prop; [exfalso; subst ee; lra|]);
  f_equal; subst den den2; field; (split; [|exact H3]);
  intro Hz; apply H3;
  match type of Hz with ?X = 0 =>
    match goal with |- ?Y = 0 => replace Y with (X / 2) by field; rewrite Hz; field end end.
Qed.

(* ---- relative slip rates and strain energy, per CRSS row ------------------ *)
Definition tauA := [Some 1; Some 2; Some 3; None]%Z.
Definition tauB := [Some 3; Some 2; Some 1; None]%Z.
Definition tauC := [Some 3; Some 2; None; Some 1]%Z.
Definition tauD := [Some 1; Some 1; Some 3; None]%Z.
Definition tauE := [Some 3; Some 1; Some 2; None]%Z.
Definition tauEn := [None; None; None; Some 1]%Z.

Ltac beta_entry :=
  first
  [ reflexivity
  | ring
  | match goal with
    | |- ?a * Rpow (Rabs ?a) ?e = ?b * Rpow (Rabs ?b) ?e' =>
        replace a with b by (field; assumption); reflexivity
    end ].

Ltac rates_eq tac_unfold :=
  intros P; destruct P; cbv [pidx perm4_list nth tau_at]; intros Hi Ht;
  try (exfalso; apply Ht; reflexivity);
  tac_unfold; numR;
  (match goal with |- context [Reqb ?a 0] =>
     let Hq := fresh "Hq" in destruct (Reqb a 0) eqn:Hq; bool2prop; [contradiction|] end);
  f_equal;
  cbv [spec_beta_arr spec_beta pidx perm4_list nth tau_at over_tau tau_val Nat.eqb]; numR;
  apply arr_eq4; beta_entry.

Lemma rates_eq_spec_A (inv : RA) n : forall P,
  inv (pidx P 3) <> 0 -> tau_at tauA (pidx P 3) <> None ->
  k_get_slip_rates_olivine_s_1_2_3_inf inv P n = Ok (spec_beta_arr tauA inv P n).
Proof. unfold tauA. rates_eq ltac:(unfold k_get_slip_rates_olivine_s_1_2_3_inf). Qed.
Lemma rates_eq_spec_B (inv : RA) n : forall P,
  inv (pidx P 3) <> 0 -> tau_at tauB (pidx P 3) <> None ->
  k_get_slip_rates_olivine_s_3_2_1_inf inv P n = Ok (spec_beta_arr tauB inv P n).
Proof. unfold tauB. rates_eq ltac:(unfold k_get_slip_rates_olivine_s_3_2_1_inf). Qed.
Lemma rates_eq_spec_C (inv : RA) n : forall P,
  inv (pidx P 3) <> 0 -> tau_at tauC (pidx P 3) <> None ->
  k_get_slip_rates_olivine_s_3_2_inf_1 inv P n = Ok (spec_beta_arr tauC inv P n).
Proof. unfold tauC. rates_eq ltac:(unfold k_get_slip_rates_olivine_s_3_2_inf_1). Qed.
Lemma rates_eq_spec_D (inv : RA) n : forall P,
  inv (pidx P 3) <> 0 -> tau_at tauD (pidx P 3) <> None ->
  k_get_slip_rates_olivine_s_1_1_3_inf inv P n = Ok (spec_beta_arr tauD inv P n).
Proof. unfold tauD. rates_eq ltac:(unfold k_get_slip_rates_olivine_s_1_1_3_inf). Qed.
Lemma rates_eq_spec_E (inv : RA) n : forall P,
  inv (pidx P 3) <> 0 -> tau_at tauE (pidx P 3) <> None ->
  k_get_slip_rates_olivine_s_3_1_2_inf inv P n = Ok (spec_beta_arr tauE inv P n).
Proof. unfold tauE. rates_eq ltac:(unfold k_get_slip_rates_olivine_s_3_1_2_inf). Qed.

Ltac energy_eq tac_unfold :=
  intros P Hn; destruct P; tac_unfold; numR;
  (match goal with |- context [Reqb ?a 0] =>
     let Hq := fresh "Hq" in destruct (Reqb a 0) eqn:Hq; bool2prop; [contradiction|] end);
  f_equal;
  cbv [spec_energy spec_energy1 spec_rho pidx perm4_list nth tau_at over_tau]; numR; reflexivity.

Lemma energy_eq_spec_A (b : RA) g p n lam : forall P, n <> 0 ->
  k_get_strain_energy_s_1_2_3_inf b P g p n lam = Ok (spec_energy tauA b P g p n lam).
Proof. unfold tauA. energy_eq ltac:(unfold k_get_strain_energy_s_1_2_3_inf). Qed.
Lemma energy_eq_spec_B (b : RA) g p n lam : forall P, n <> 0 ->
  k_get_strain_energy_s_3_2_1_inf b P g p n lam = Ok (spec_energy tauB b P g p n lam).
Proof. unfold tauB. energy_eq ltac:(unfold k_get_strain_energy_s_3_2_1_inf). Qed.
Lemma energy_eq_spec_C (b : RA) g p n lam : forall P, n <> 0 ->
  k_get_strain_energy_s_3_2_inf_1 b P g p n lam = Ok (spec_energy tauC b P g p n lam).
Proof. unfold tauC. energy_eq ltac:(unfold k_get_strain_energy_s_3_2_inf_1). Qed.
Lemma energy_eq_spec_D (b : RA) g p n lam : forall P, n <> 0 ->
  k_get_strain_energy_s_1_1_3_inf b P g p n lam = Ok (spec_energy tauD b P g p n lam).
Proof. unfold tauD. energy_eq ltac:(unfold k_get_strain_energy_s_1_1_3_inf). Qed.
Lemma energy_eq_spec_E (b : RA) g p n lam : forall P, n <> 0 ->
  k_get_strain_energy_s_3_1_2_inf b P g p n lam = Ok (spec_energy tauE b P g p n lam).
Proof. unfold tauE. energy_eq ltac:(unfold k_get_strain_energy_s_3_1_2_inf). Qed.
Lemma energy_eq_spec_En (b : RA) g p n lam : forall P, n <> 0 ->
  k_get_strain_energy_s_inf_inf_inf_1 b P g p n lam = Ok (spec_energy tauEn b P g p n lam).
Proof. unfold tauEn. energy_eq ltac:(unfold k_get_strain_energy_s_inf_inf_inf_1). Qed.

(* ---- composition: one grain --------------------------------------------- *)
Lemma Reqb_refl x : Reqb x x = true.
Proof. apply Reqb_true; reflexivity. Qed.

Lemma andb4_false (a b c d : bool) :
  andb a (andb b (andb c d)) = false -> a = false \/ b = false \/ c = false \/ d = false.
Proof. destruct a, b, c, d; cbn; auto. Qed.

Definition olivine_tau (tau : list (option Z)) : Prop :=
  tau = tauA \/ tau = tauB \/ tau = tauC \/ tau = tauD \/ tau = tauE.

(* the most active system has a finite CRSS and a non-zero invariant *)
Lemma imax_facts tau (c : RA) : olivine_tau tau ->
  all_zero4 (spec_activities tau c) = false ->
  c (pidx (argsort4 (spec_activities tau c)) 3) <> 0 /\
  tau_at tau (pidx (argsort4 (spec_activities tau c)) 3) <> None.
Proof.
  intros Ht Hz.
  pose proof (argsort4_max (spec_activities tau c)) as Hmax.
  pose proof (Hmax 0%nat ltac:(lia)) as H0; pose proof (Hmax 1%nat ltac:(lia)) as H1;
  pose proof (Hmax 2%nat ltac:(lia)) as H2; pose proof (Hmax 3%nat ltac:(lia)) as H3; clear Hmax.
  unfold all_zero4 in Hz. apply andb4_false in Hz.
  destruct Ht as [->|[->|[->|[->| ->]]]];
  (remember (argsort4 _) as P eqn:HP in *; clear HP;
   cbv [spec_activities act over_tau tau_at tauA tauB tauC tauD tauE nth mk_arr] in *; numR;
   destruct P; cbv [pidx perm4_list nth] in *; abs_pos;
   destruct Hz as [Hz|[Hz|[Hz|Hz]]]; bool2prop;
   try (exfalso; lra);
   (split; [ intro Hc; rewrite Hc in *; unfold Rdiv in *; rewrite ?Rmult_0_l, ?Rabs_R0 in *; lra
           | discriminate ])).
Qed.

Ltac olivine_case rates_lemma energy_lemma tau_def tau_or :=
  intros Hn; unfold k_get_rotation_and_strain, spec_grain;
  cbn [Z.eqb Pos.eqb tau_table];
  rewrite invariants_eq_spec;
  set (c := spec_invariants _ _);
  change (andb (eqb (c 0%nat) zero) (andb (eqb (c 1%nat) zero) (andb (eqb (c 2%nat) zero) (eqb (c 3%nat) zero))))
    with (all_zero4 c);
  destruct (all_zero4 c); [reflexivity|];
  fold tau_def;
  pose proof (imax_facts tau_def c tau_or) as Hfacts;
  unfold all_zero4 at 1; unfold all_zero4 in Hfacts;
  cbv [spec_activities act over_tau tau_at tau_def nth mk_arr] in Hfacts |- *;
  numR; rewrite ?Reqb_refl, ?andb_true_r, ?andb_true_l in Hfacts |- *;
  match goal with |- (if ?b then _ else _) = (if ?b then _ else _) => destruct b; [reflexivity|] end;
  destruct (Hfacts eq_refl) as [Hi Ht]; clear Hfacts.

Ltac rw_with H := let Hr := fresh "Hr" in pose proof H as Hr; numR; rewrite Hr; clear Hr.

Ltac olivine_finish rates_lemma energy_lemma :=
  match goal with |- context [@argsort4 ?GG ?v] =>
  let P := fresh "P" in set (P := @argsort4 GG v) in *;
  match goal with Hi : _ <> 0, Ht : _ <> None |- context [?f ?FF ?c P ?n] =>
    rw_with (rates_lemma c n P Hi Ht) end;
  match goal with |- context [k_get_deformation_rate ?ph ?A ?b] => rw_with (schmid_eq_spec ph A b) end;
  match goal with |- context [k_get_slip_rate_softest ?G ?L] => rw_with (softest_eq_spec G L) end;
  match goal with Hn : _ <> 0 |- context [match ?f ?FF ?b P ?g ?p ?n ?lam with Ok _ => _ | Err _ => _ end] =>
    rw_with (energy_lemma b g p n lam P Hn) end;
  match goal with |- context [k_get_orientation_change ?A ?L ?G ?g] => rw_with (orientation_change_eq_spec A L G g) end;
  reflexivity
  end.

Lemma grain_eq_spec_A (A D L : RA) p n lam : n <> 0 ->
  k_get_rotation_and_strain 0 0 A D L p n lam = spec_grain 0 0 A D L p n lam.
Proof.
  olivine_case rates_eq_spec_A energy_eq_spec_A tauA (or_introl eq_refl : olivine_tau tauA).
  olivine_finish rates_eq_spec_A energy_eq_spec_A.
Qed.

Lemma grain_eq_spec_B (A D L : RA) p n lam : n <> 0 ->
  k_get_rotation_and_strain 0 1 A D L p n lam = spec_grain 0 1 A D L p n lam.
Proof.
  olivine_case rates_eq_spec_B energy_eq_spec_B tauB (or_intror (or_introl eq_refl) : olivine_tau tauB).
  olivine_finish rates_eq_spec_B energy_eq_spec_B.
Qed.
Lemma grain_eq_spec_C (A D L : RA) p n lam : n <> 0 ->
  k_get_rotation_and_strain 0 2 A D L p n lam = spec_grain 0 2 A D L p n lam.
Proof.
  olivine_case rates_eq_spec_C energy_eq_spec_C tauC (or_intror (or_intror (or_introl eq_refl)) : olivine_tau tauC).
  olivine_finish rates_eq_spec_C energy_eq_spec_C.
Qed.
Lemma grain_eq_spec_D (A D L : RA) p n lam : n <> 0 ->
  k_get_rotation_and_strain 0 3 A D L p n lam = spec_grain 0 3 A D L p n lam.
Proof.
  olivine_case rates_eq_spec_D energy_eq_spec_D tauD (or_intror (or_intror (or_intror (or_introl eq_refl))) : olivine_tau tauD).
  olivine_finish rates_eq_spec_D energy_eq_spec_D.
Qed.
Lemma grain_eq_spec_E (A D L : RA) p n lam : n <> 0 ->
  k_get_rotation_and_strain 0 4 A D L p n lam = spec_grain 0 4 A D L p n lam.
Proof.
  olivine_case rates_eq_spec_E energy_eq_spec_E tauE (or_intror (or_intror (or_intror (or_intror eq_refl))) : olivine_tau tauE).
  olivine_finish rates_eq_spec_E energy_eq_spec_E.
Qed.

Lemma grain_eq_spec_En (A D L : RA) p n lam : n <> 0 ->
  k_get_rotation_and_strain 1 5 A D L p n lam = spec_grain 1 5 A D L p n lam.
Proof.
  intros Hn; unfold k_get_rotation_and_strain, spec_grain; cbn [Z.eqb Pos.eqb tau_table].
  rewrite invariants_eq_spec. set (c := spec_invariants _ _).
  change (andb (eqb (c 0%nat) zero) (andb (eqb (c 1%nat) zero) (andb (eqb (c 2%nat) zero) (eqb (c 3%nat) zero))))
    with (all_zero4 c).
  destruct (all_zero4 c); [reflexivity|]. fold tauEn. unfold eps15. numR.
  match goal with |- (if ?b then _ else _) = _ => destruct b end;
  (match goal with |- context [k_get_deformation_rate ?ph ?A ?b] => rw_with (schmid_eq_spec ph A b) end;
   match goal with |- context [k_get_slip_rate_softest ?G ?L] => rw_with (softest_eq_spec G L) end;
   match goal with |- context [match ?f ?FF ?b ?P ?g ?p ?n ?lam with Ok _ => _ | Err _ => _ end] =>
     rw_with (energy_eq_spec_En b g p n lam P Hn) end;
   match goal with |- context [k_get_orientation_change ?A ?L ?G ?g] => rw_with (orientation_change_eq_spec A L G g) end;
   reflexivity).
Qed.

(* C02, one grain: for every supported (phase, fabric), every orientation, strain rate,
   velocity gradient and parameters with n <> 0, the generated solver kernel IS the
   published model -- including which inputs take the two early exits *)
Theorem grain_eq_spec ph fb (A D L : RA) p n lam :
  valid_pair ph fb -> n <> 0 ->
  k_get_rotation_and_strain ph fb A D L p n lam = spec_grain ph fb A D L p n lam.
Proof.
  intros [[-> [->|[->|[->|[->| ->]]]]]|[-> ->]] Hn;
  [ apply grain_eq_spec_A | apply grain_eq_spec_B | apply grain_eq_spec_C
  | apply grain_eq_spec_D | apply grain_eq_spec_E | apply grain_eq_spec_En ]; exact Hn.
Qed.

(* invalid (phase, fabric) pairs are rejected by both *)
Lemma grain_invalid_pair ph fb (A D L : RA) p n lam :
  tau_table ph fb = None -> k_get_rotation_and_strain ph fb A D L p n lam = Err ValueError.
Proof.
  intros H. unfold k_get_rotation_and_strain.
  repeat match goal with |- context [Z.eqb ?a ?k] => destruct (Z.eqb_spec a k); subst end;
  try reflexivity; cbn in H; discriminate H.
Qed.

(* the least-squares characterisation of the softest slip rate *)
Lemma gamma0_minimises (G L : RA) g :
  let S := sym2 (F := NumR) G in let E := sym2 (F := NumR) L in
  frob (F := NumR) S S <> 0 ->
  let g0 := frob (F := NumR) S E / frob (F := NumR) S S in
  frob (F := NumR) (fun i j => E i j - g0 * S i j) (fun i j => E i j - g0 * S i j)
  <= frob (F := NumR) (fun i j => E i j - g * S i j) (fun i j => E i j - g * S i j).
Proof.
  intros S E Hne g0.
  set (a := frob (F := NumR) S S) in *. set (b := frob (F := NumR) S E) in *.
  assert (Hexp : forall t, frob (F := NumR) (fun i j => E i j - t * S i j) (fun i j => E i j - t * S i j)
                 = frob (F := NumR) E E - 2 * t * b + t * t * a).
  { intros t. subst a b. unfold frob. numR. ring. }
  rewrite !Hexp. subst g0.
  assert (Ha : 0 < a).
  { assert (Hsqr : forall x, 0 <= x * x) by (intro; nra).
    assert (0 <= a) by (subst a; unfold frob; numR; repeat apply Rplus_le_le_0_compat; apply Hsqr). lra. }
  assert (Hsq : 0 <= (g * a - b) * (g * a - b)) by (apply Rle_0_sqr).
  assert (Hq : - 2 * (b / a) * b + (b / a) * (b / a) * a = - (b * b) / a) by (field; lra).
  assert (Hr : (g * a - b) * (g * a - b) / a = g * g * a - 2 * g * b + b * b / a) by (field; lra).
  assert (0 <= (g * a - b) * (g * a - b) / a).
  { apply Rmult_le_pos; [exact Hsq | left; apply Rinv_0_lt_compat; exact Ha]. }
  nra.
Qed.

(* ---- aggregate -------------------------------------------------------------- *)
Lemma grains_eq_spec ph fb os (D L : RA) p n lam :
  valid_pair ph fb -> n <> 0 ->
  grains ph fb os D L p n lam = spec_grains ph fb os D L p n lam.
Proof.
  intros Hv Hn. induction os as [|o os IH]; cbn [grains spec_grains]; [reflexivity|].
  rewrite (grain_eq_spec ph fb o D L p n lam Hv Hn), IH. reflexivity.
Qed.

Lemma smap2_map2 {A B C} (f : A -> B -> C) l1 l2 : smap2 f l1 l2 = map2 f l1 l2.
Proof. revert l2; induction l1 as [|a l1 IH]; intros [|b l2]; cbn; try reflexivity; f_equal; apply IH. Qed.

Lemma map2_ext_R {A B} (f g : A -> B -> R) l1 l2 :
  (forall a b, f a b = g a b) -> map2 f l1 l2 = map2 g l1 l2.
Proof. intros H; revert l2; induction l1 as [|a l1 IH]; intros [|b l2]; cbn; try reflexivity; rewrite H, IH; reflexivity. Qed.

Lemma migration_eq_spec c phi M fs es :
  @frac_rates NumR c phi M fs es = @spec_migration NumR (cfac c) phi M fs es.
Proof.
  rewrite frac_rates_R. unfold spec_migration.
  change (@spec_mean_energy NumR fs es) with (rsum (map2 Rmult fs es)).
  set (m := rsum (map2 Rmult fs es)).
  change (map2 (rate1 c phi M m) fs es
          = map2 (fun f e : R => @mul NumR (cfac c) (@mul NumR (@mul NumR (@mul NumR phi M) f) (@sub NumR m e))) fs es).
  apply map2_ext_R. intros f e. destruct c; cbn [rate1 cfac]; numR; ring.
Qed.

Lemma scale9_eq_spec c (a : RA) : @scale9 NumR c a = @scale9s NumR c a.
Proof. reflexivity. Qed.

(* C02: the solver (list model of derivatives = generated code at n <= 3, see Inst_core)
   equals the published model for any number of grains, both dislocation regimes *)
Theorem derivs_eq_spec regime ph fb os fs (D L S : RA) p n lam M phi :
  dislocation_regime regime -> valid_pair ph fb -> n <> 0 ->
  @derivs NumR regime ph fb os fs D L S p n lam M phi
  = @spec_derivs NumR regime ph fb os fs D L p n lam M phi.
Proof.
  intros [->| ->] Hv Hn; unfold derivs, spec_derivs; cbn [Z.eqb Pos.eqb];
  rewrite (grains_eq_spec ph fb os D L p n lam Hv Hn);
  destruct (spec_grains ph fb os D L p n lam) as [rs|]; try reflexivity.
  - rewrite migration_eq_spec. reflexivity.
  - rewrite migration_eq_spec. cbn [cfac]. reflexivity.
Qed.

Lemma C02_nonvacuous_proof : valid_pair 0 4 /\ valid_pair 1 5 /\ dislocation_regime 6 /\ (3.5 <> 0).
Proof.
  repeat split; try lra.
  - left; split; [reflexivity|]. right; right; right; right; reflexivity.
  - right; split; reflexivity.
  - right; reflexivity.
Qed.
