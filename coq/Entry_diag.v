(* Entry_diag.v -- flat-list entry points of Model_diag for the extracted driver.
   Inputs: orientations as n blocks of 9 (row-major), then the RECORDED outputs of the
   LAPACK oracle (eigenvalues ascending; eigenvector matrix V row-major, columns are the
   eigenvectors).  The oracle passed to the model is the constant function returning the
   recorded value (for coaxial_index: keyed on the model's own scatter matrix).
   run_session: a call history on `nb` live objects of `n` grains each (Model_diag_session);
   floats = the initial contents of the objects, then the payloads of the steps in order;
   codes = the steps: 0 b (fill, 9n floats) | 1 b (rotate, 9 floats) | 2 b p_1..p_n (permute) |
   3 b (row factors, 3n floats) | 4 b src (copy) | 5 b r (P,G,R) | 6 b r (Bingham) |
   7 b r1 r2 (coaxial); output = the matrices handed to LAPACK, in call order.
   run_fse_session: a finite_strain call history on `nb` live 3x3 objects (Model_diag_fse_session); floats = the
   initial contents, then the payloads in order; codes: 0 b (F[...] = G, 9 floats) | 1 b (F[...] = F @ Q, 9) |
   2 b (F[...] = Q @ F, 9) | 3 b (F *= c, 1) | 4 b (F[...] = F.T) | 5 b src (copy) | 6 b (finite_strain);
   output = the matrices handed to LAPACK, in call order.
   run_smallest_angle: 6 floats (vector, axis) or 9 (vector, axis, plane normal).
   run_gen_*: the definitions of gen/Gen_diag.v (REGENERATED from the source, n = 1, 2, 3 grains) run on
   the same inputs; their LAPACK parameter is the constant function returning the recorded output
   (eigenvalues; V row-major as SciPy returns it), for coaxial_index keyed on the generated scatter
   matrix of the first axis. *)
From Coq Require Import ZArith List Bool.
From PV Require Import Num Model_diag Model_diag_session Model_diag_fse_session.
From PV.gen Require Import Gen_diag.
Import ListNotations.

Section Entry.
  Context {F : Num}.

  Definition d0 : F := nzero.
  Definition v3_of (l : list F) : @vec3 F := (nth 0 l d0, nth 1 l d0, nth 2 l d0).
  Definition m3_of (l : list F) : @mat3 F :=
    (v3_of l, v3_of (skipn 3 l), v3_of (skipn 6 l)).
  Definition l_of_v3 (v : @vec3 F) : list F := [vx v; vy v; vz v].
  Definition l_of_s6 (s : @sym3 F) : list F :=
    let '(a, b, c, d, e, f) := s in [a; b; c; d; e; f].

  Fixpoint grains_of (n : nat) (l : list F) : list (@mat3 F) :=
    match n with
    | O => []
    | S n' => m3_of l :: grains_of n' (skipn 9 l)
    end.

  (* columns of a row-major 3x3 block *)
  Definition cols_of (l : list F) : @vec3 F * @vec3 F * @vec3 F :=
    let M := transpose (m3_of l) in M.

  Definition eqb6 (a b : @sym3 F) : bool :=
    let '(a0, a1, a2, a3, a4, a5) := a in
    let '(b0, b1, b2, b3, b4, b5) := b in
    neqb a0 b0 && neqb a1 b1 && neqb a2 b2 && neqb a3 b3 && neqb a4 b4 && neqb a5 b5.

  Definition run_scatter (axis : Z) (n : nat) (xs : list F) : res (list F) :=
    match row_of_axis axis with
    | Err e => Err e
    | Ok r => Ok (l_of_s6 (scatter (grains_of n xs) r))
    end.

  Definition run_pgr (axis : Z) (n : nat) (xs : list F) : res (list F) :=
    match row_of_axis axis with
    | Err e => Err e
    | Ok r =>
        let lam := v3_of (skipn (9 * n) xs) in
        Ok (l_of_v3 (symmetry_pgr (fun _ => lam) (grains_of n xs) r))
    end.

  Definition run_coaxial (axis1 axis2 : Z) (n : nat) (xs : list F) : res (list F) :=
    match row_of_axis axis1, row_of_axis axis2 with
    | Ok r1, Ok r2 =>
        let os := grains_of n xs in
        let rest := skipn (9 * n) xs in
        let lam1 := v3_of rest in
        let lam2 := v3_of (skipn 3 rest) in
        let S1 := scatter os r1 in
        Ok [coaxial_index (fun S => if eqb6 S S1 then lam1 else lam2) os r1 r2]
    | Err e, _ => Err e
    | _, Err e => Err e
    end.

  Definition run_bingham (axis : Z) (n : nat) (xs : list F) : res (list F) :=
    match row_of_axis axis with
    | Err e => Err e
    | Ok r =>
        let rest := skipn (9 * n) xs in
        let lam := v3_of rest in
        let V := cols_of (skipn 3 rest) in
        Ok (l_of_v3 (bingham_average (fun _ => (lam, V)) (grains_of n xs) r))
    end.

  Definition run_lcg (xs : list F) : res (list F) :=
    Ok (l_of_s6 (left_cauchy_green (m3_of xs))).

  Definition run_fse (xs : list F) : res (list F) :=
    let Fm := m3_of xs in
    let lam := v3_of (skipn 9 xs) in
    let V := cols_of (skipn 12 xs) in
    let '(v, ax) := finite_strain (fun _ => (lam, V)) Fm in
    Ok (v :: l_of_v3 ax).

  Fixpoint vecs_of (n : nat) (l : list F) : list (@vec3 F) :=
    match n with
    | O => []
    | S n' => v3_of l :: vecs_of n' (skipn 3 l)
    end.

  Fixpoint store_of (nb n : nat) (l : list F) : @store F :=
    match nb with
    | O => []
    | S k => grains_of n l :: store_of k n (skipn (9 * n) l)
    end.

  Fixpoint parse_ops (fuel n : nat) (codes : list nat) (xs : list F) : res (list (@sop F)) :=
    match codes with
    | [] => Ok []
    | k :: t =>
      match fuel with
      | O => Err OtherError
      | S fuel' =>
        let next o t' xs' := bind (parse_ops fuel' n t' xs') (fun l => Ok (o :: l)) in
        match k, t with
        | 0%nat, b :: t' => next (SFill b (grains_of n xs)) t' (skipn (9 * n) xs)
        | 1%nat, b :: t' => next (SRotate b (m3_of xs)) t' (skipn 9 xs)
        | 2%nat, b :: t' => next (SPermute b (firstn n t')) (skipn n t') xs
        | 3%nat, b :: t' => next (SFlip b (vecs_of n xs)) t' (skipn (3 * n) xs)
        | 4%nat, b :: src :: t' => next (SCopy b src) t' xs
        | 5%nat, b :: r :: t' => next (SPgr b r) t' xs
        | 6%nat, b :: r :: t' => next (SBingham b r) t' xs
        | 7%nat, b :: r1 :: r2 :: t' => next (SCoaxial b r1 r2) t' xs
        | _, _ => Err OtherError
        end
      end
    end.

  Definition no_vals : @sym3 F -> @eigvals F := fun _ => (d0, d0, d0).
  Definition no_vecs : @sym3 F -> @eigres F :=
    fun _ => ((d0, d0, d0), ((d0, d0, d0), (d0, d0, d0), (d0, d0, d0))).

  (* memo = false: the source as it is; memo = true: the refuted memoising variant (only used by
     the harness to describe a disagreement) *)
  Definition run_session (memo : bool) (n nb : nat) (codes : list nat) (xs : list F) : res (list F) :=
    let st := store_of nb n xs in
    match parse_ops (length codes) n codes (skipn (9 * n * nb) xs) with
    | Err e => Err e
    | Ok h => Ok (flat_map l_of_s6 (scatters_of (run no_vals no_vecs memo (st, []) h)))
    end.

  Definition run_fse_angle (xs : list F) : res (list F) :=
    match xs with
    | [s] => Ok [angle_fse_simpleshear s]
    | _ => Err OtherError
    end.
  Fixpoint fstore_of (nb : nat) (l : list F) : @fstore F :=
    match nb with
    | O => []
    | S k => m3_of l :: fstore_of k (skipn 9 l)
    end.

  Fixpoint parse_fops (fuel : nat) (codes : list nat) (xs : list F) : res (list (@fop F)) :=
    match codes with
    | [] => Ok []
    | k :: t =>
      match fuel with
      | O => Err OtherError
      | S fuel' =>
        let next o t' xs' := bind (parse_fops fuel' t' xs') (fun l => Ok (o :: l)) in
        match k, t with
        | 0%nat, b :: t' => next (FSet b (m3_of xs)) t' (skipn 9 xs)
        | 1%nat, b :: t' => next (FRight b (m3_of xs)) t' (skipn 9 xs)
        | 2%nat, b :: t' => next (FLeft b (m3_of xs)) t' (skipn 9 xs)
        | 3%nat, b :: t' => next (FScale b (nth 0 xs d0)) t' (skipn 1 xs)
        | 4%nat, b :: t' => next (FTransp b) t' xs
        | 5%nat, b :: src :: t' => next (FCopy b src) t' xs
        | 6%nat, b :: t' => next (FStrain b) t' xs
        | _, _ => Err OtherError
        end
      end
    end.

  Definition run_fse_session (memo : bool) (nb : nat) (codes : list nat) (xs : list F) : res (list F) :=
    match parse_fops (length codes) codes (skipn (9 * nb) xs) with
    | Err e => Err e
    | Ok h => Ok (flat_map l_of_s6 (lcgs_of (frun no_vecs memo (fstore_of nb xs, []) h)))
    end.

  Definition run_smallest_angle (xs : list F) : res (list F) :=
    match length xs with
    | 6%nat => bind (smallest_angle (v3_of xs) (v3_of (skipn 3 xs)) None) (fun x => Ok [x])
    | 9%nat => bind (smallest_angle (v3_of xs) (v3_of (skipn 3 xs)) (Some (v3_of (skipn 6 xs))))
                    (fun x => Ok [x])
    | _ => Err OtherError
    end.

  (* ---- the generated definitions ---- *)
  Definition arr_of (l : list F) : arr F := mk_arr d0 l.

  Definition gscatter (n r : nat) : option (arr F -> arr F) :=
    match n, r with
    | 1%nat, 0%nat => Some k_scatter_matrix_n1_r0 | 1%nat, 1%nat => Some k_scatter_matrix_n1_r1
    | 1%nat, 2%nat => Some k_scatter_matrix_n1_r2
    | 2%nat, 0%nat => Some k_scatter_matrix_n2_r0 | 2%nat, 1%nat => Some k_scatter_matrix_n2_r1
    | 2%nat, 2%nat => Some k_scatter_matrix_n2_r2
    | 3%nat, 0%nat => Some k_scatter_matrix_n3_r0 | 3%nat, 1%nat => Some k_scatter_matrix_n3_r1
    | 3%nat, 2%nat => Some k_scatter_matrix_n3_r2
    | _, _ => None
    end.

  Definition run_gen_scatter (axis : Z) (n : nat) (xs : list F) : res (list F) :=
    match row_of_axis axis with
    | Err e => Err e
    | Ok r => match gscatter n r with
              | None => Err OtherError
              | Some f => Ok (arr_to_list 9 (f (arr_of xs)))
              end
    end.

  Definition run_gen_pgr (axis : Z) (n : nat) (xs : list F) : res (list F) :=
    let O := arr_of (firstn (9 * n) xs) in
    let ev := fun _ : arr F => arr_of (skipn (9 * n) xs) in
    let out (r : res (F * F * F)) := bind r (fun t => let '(P, G, Rn) := t in Ok [P; G; Rn]) in
    match n with
    | 1%nat => out (k_symmetry_pgr_n1 ev axis O) | 2%nat => out (k_symmetry_pgr_n2 ev axis O)
    | 3%nat => out (k_symmetry_pgr_n3 ev axis O) | _ => Err OtherError
    end.

  Definition arr_eqb9 (a b : arr F) : bool := forallb (fun k => neqb (a k) (b k)) (seq 0 9).

  Definition run_gen_coaxial (axis1 axis2 : Z) (n : nat) (xs : list F) : res (list F) :=
    let O := arr_of (firstn (9 * n) xs) in
    let rest := skipn (9 * n) xs in
    let S1 := match row_of_axis axis1 with
              | Ok r1 => match gscatter n r1 with Some f => f O | None => arr_of [] end
              | Err _ => arr_of []
              end in
    let ev := fun m : arr F => if arr_eqb9 m S1 then arr_of (firstn 3 rest) else arr_of (skipn 3 rest) in
    let out (r : res F) := bind r (fun x => Ok [x]) in
    match n with
    | 1%nat => out (k_coaxial_index_n1 ev axis1 axis2 O) | 2%nat => out (k_coaxial_index_n2 ev axis1 axis2 O)
    | 3%nat => out (k_coaxial_index_n3 ev axis1 axis2 O) | _ => Err OtherError
    end.

  Definition run_gen_bingham (axis : Z) (n : nat) (xs : list F) : res (list F) :=
    let O := arr_of (firstn (9 * n) xs) in
    let rest := skipn (9 * n) xs in
    let eh := fun _ : arr F => (arr_of (firstn 3 rest), arr_of (skipn 3 rest)) in
    let out (r : res (arr F)) := bind r (fun a => Ok (arr_to_list 3 a)) in
    match n with
    | 1%nat => out (k_bingham_average_n1 eh axis O) | 2%nat => out (k_bingham_average_n2 eh axis O)
    | 3%nat => out (k_bingham_average_n3 eh axis O) | _ => Err OtherError
    end.

  (* which = 0: called without axis arguments (n = 1 grain) *)
  Definition run_gen_default (which : nat) (xs : list F) : res (list F) :=
    let O := arr_of (firstn 9 xs) in
    let rest := skipn 9 xs in
    match which with
    | 0%nat => let '(P, G, Rn) := k_symmetry_pgr_n1_default (fun _ => arr_of rest) O in Ok [P; G; Rn]
    | 1%nat => Ok (arr_to_list 3 (k_bingham_average_n1_default
                                   (fun _ => (arr_of (firstn 3 rest), arr_of (skipn 3 rest))) O))
    | _ => let S1 := k_scatter_matrix_n1_r1 O in
           bind (k_coaxial_index_n1_default
                   (fun m => if arr_eqb9 m S1 then arr_of (firstn 3 rest) else arr_of (skipn 3 rest)) O)
                (fun x => Ok [x])
    end.

  (* driver = 0: finite_strain(F); 1: finite_strain(F, driver=...) *)
  Definition run_gen_fse (driver : nat) (xs : list F) : res (list F) :=
    let Fa := arr_of (firstn 9 xs) in
    let rest := skipn 9 xs in
    let eh := fun _ : arr F => (arr_of (firstn 3 rest), arr_of (skipn 3 rest)) in
    let '(v, ax) := match driver with 0%nat => k_finite_strain eh Fa | _ => k_finite_strain_driver eh Fa end in
    Ok (v :: arr_to_list 3 ax).

  (* the lower triangle of the matrix the generated finite_strain hands to LAPACK: the stand-in for LAPACK
     copies three entries of its argument into the last column of V *)
  Definition run_gen_lcg (xs : list F) : res (list F) :=
    let Fa := arr_of xs in
    let pick (i j k : nat) :=
      snd (k_finite_strain (fun m => (m, mk_arr d0 [d0; d0; m i; d0; d0; m j; d0; d0; m k])) Fa) in
    Ok (arr_to_list 3 (pick 0%nat 3%nat 4%nat) ++ arr_to_list 3 (pick 6%nat 7%nat 8%nat)).

  Definition run_gen_angle (xs : list F) : res (list F) :=
    match length xs with
    | 6%nat => bind (k_smallest_angle (arr_of (firstn 3 xs)) (arr_of (skipn 3 xs))) (fun x => Ok [x])
    | 9%nat => bind (k_smallest_angle_plane (arr_of (firstn 3 xs)) (arr_of (firstn 3 (skipn 3 xs)))
                                            (arr_of (skipn 6 xs))) (fun x => Ok [x])
    | _ => Err OtherError
    end.

  Definition run_gen_fse_angle (xs : list F) : res (list F) :=
    match xs with
    | [s] => Ok [k_angle_fse_simpleshear s]
    | _ => Err OtherError
    end.
End Entry.
