(* Entry_diag.v -- flat-list entry points of Model_diag for the extracted driver.
   Inputs: orientations as n blocks of 9 (row-major), then the RECORDED outputs of the
   LAPACK oracle (eigenvalues ascending; eigenvector matrix V row-major, columns are the
   eigenvectors).  The oracle passed to the model is the constant function returning the
   recorded value (for coaxial_index: keyed on the model's own scatter matrix).
   run_session: a call history on `nb` live objects of `n` grains each (Model_diag_session);
   floats = the initial contents of the objects, then the payloads of the steps in order;
   codes = the steps: 0 b (fill, 9n floats) | 1 b (rotate, 9 floats) | 2 b p_1..p_n (permute) |
   3 b (row factors, 3n floats) | 4 b src (copy) | 5 b r (P,G,R) | 6 b r (Bingham) |
   7 b r1 r2 (coaxial); output = the matrices handed to LAPACK, in call order. *)
From Coq Require Import ZArith List Bool.
From PV Require Import Num Model_diag Model_diag_session.
Import ListNotations.

Section Entry.
  Context {F : Num}.

  Definition d0 : F := nzero.
  Definition v3_of (l : list F) : @vec3 F := (nth 0 l d0, nth 1 l d0, nth 2 l d0).
  Definition m3_of (l : list F) : @mat3 F :=
    (v3_of l, v3_of (skipn 3 l), v3_of (skipn 6 l)).
  Definition l_of_v3 (v : @vec3 F) : list F := [vx v; vy v; vz v].
  Definition l_of_s6 (s : @sym3 F) : list F :=
    let '(a, b, c, d, e, f) := s in [a; b; c; d; e; f].

  Fixpoint grains_of (n : nat) (l : list F) : list (@mat3 F) :=
    match n with
    | O => []
    | S n' => m3_of l :: grains_of n' (skipn 9 l)
    end.

  (* columns of a row-major 3x3 block *)
  Definition cols_of (l : list F) : @vec3 F * @vec3 F * @vec3 F :=
    let M := transpose (m3_of l) in M.

  Definition eqb6 (a b : @sym3 F) : bool :=
    let '(a0, a1, a2, a3, a4, a5) := a in
    let '(b0, b1, b2, b3, b4, b5) := b in
    neqb a0 b0 && neqb a1 b1 && neqb a2 b2 && neqb a3 b3 && neqb a4 b4 && neqb a5 b5.

  Definition run_scatter (axis : Z) (n : nat) (xs : list F) : res (list F) :=
    match row_of_axis axis with
    | Err e => Err e
    | Ok r => Ok (l_of_s6 (scatter (grains_of n xs) r))
    end.

  Definition run_pgr (axis : Z) (n : nat) (xs : list F) : res (list F) :=
    match row_of_axis axis with
    | Err e => Err e
    | Ok r =>
        let lam := v3_of (skipn (9 * n) xs) in
        Ok (l_of_v3 (symmetry_pgr (fun _ => lam) (grains_of n xs) r))
    end.

  Definition run_coaxial (axis1 axis2 : Z) (n : nat) (xs : list F) : res (list F) :=
    match row_of_axis axis1, row_of_axis axis2 with
    | Ok r1, Ok r2 =>
        let os := grains_of n xs in
        let rest := skipn (9 * n) xs in
        let lam1 := v3_of rest in
        let lam2 := v3_of (skipn 3 rest) in
        let S1 := scatter os r1 in
        Ok [coaxial_index (fun S => if eqb6 S S1 then lam1 else lam2) os r1 r2]
    | Err e, _ => Err e
    | _, Err e => Err e
    end.

  Definition run_bingham (axis : Z) (n : nat) (xs : list F) : res (list F) :=
    match row_of_axis axis with
    | Err e => Err e
    | Ok r =>
        let rest := skipn (9 * n) xs in
        let lam := v3_of rest in
        let V := cols_of (skipn 3 rest) in
        Ok (l_of_v3 (bingham_average (fun _ => (lam, V)) (grains_of n xs) r))
    end.

  Definition run_lcg (xs : list F) : res (list F) :=
    Ok (l_of_s6 (left_cauchy_green (m3_of xs))).

  Definition run_fse (xs : list F) : res (list F) :=
    let Fm := m3_of xs in
    let lam := v3_of (skipn 9 xs) in
    let V := cols_of (skipn 12 xs) in
    let '(v, ax) := finite_strain (fun _ => (lam, V)) Fm in
    Ok (v :: l_of_v3 ax).

  Fixpoint vecs_of (n : nat) (l : list F) : list (@vec3 F) :=
    match n with
    | O => []
    | S n' => v3_of l :: vecs_of n' (skipn 3 l)
    end.

  Fixpoint store_of (nb n : nat) (l : list F) : @store F :=
    match nb with
    | O => []
    | S k => grains_of n l :: store_of k n (skipn (9 * n) l)
    end.

  Fixpoint parse_ops (fuel n : nat) (codes : list nat) (xs : list F) : res (list (@sop F)) :=
    match codes with
    | [] => Ok []
    | k :: t =>
      match fuel with
      | O => Err OtherError
      | S fuel' =>
        let next o t' xs' := bind (parse_ops fuel' n t' xs') (fun l => Ok (o :: l)) in
        match k, t with
        | 0%nat, b :: t' => next (SFill b (grains_of n xs)) t' (skipn (9 * n) xs)
        | 1%nat, b :: t' => next (SRotate b (m3_of xs)) t' (skipn 9 xs)
        | 2%nat, b :: t' => next (SPermute b (firstn n t')) (skipn n t') xs
        | 3%nat, b :: t' => next (SFlip b (vecs_of n xs)) t' (skipn (3 * n) xs)
        | 4%nat, b :: src :: t' => next (SCopy b src) t' xs
        | 5%nat, b :: r :: t' => next (SPgr b r) t' xs
        | 6%nat, b :: r :: t' => next (SBingham b r) t' xs
        | 7%nat, b :: r1 :: r2 :: t' => next (SCoaxial b r1 r2) t' xs
        | _, _ => Err OtherError
        end
      end
    end.

  Definition no_vals : @sym3 F -> @eigvals F := fun _ => (d0, d0, d0).
  Definition no_vecs : @sym3 F -> @eigres F :=
    fun _ => ((d0, d0, d0), ((d0, d0, d0), (d0, d0, d0), (d0, d0, d0))).

  (* memo = false: the source as it is; memo = true: the refuted memoising variant (only used by
     the harness to describe a disagreement) *)
  Definition run_session (memo : bool) (n nb : nat) (codes : list nat) (xs : list F) : res (list F) :=
    let st := store_of nb n xs in
    match parse_ops (length codes) n codes (skipn (9 * n * nb) xs) with
    | Err e => Err e
    | Ok h => Ok (flat_map l_of_s6 (scatters_of (run no_vals no_vecs memo (st, []) h)))
    end.

  Definition run_fse_angle (xs : list F) : res (list F) :=
    match xs with
    | [s] => Ok [angle_fse_simpleshear s]
    | _ => Err OtherError
    end.
End Entry.
