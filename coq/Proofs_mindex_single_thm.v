(* Proofs_mindex_single_thm.v -- "close to 1 for a single-orientation texture": the closed form
   of Proofs_mindex_single.v evaluated on the three theoretical densities of proved mass. *)
From Coq Require Import Reals ZArith List Bool Lra Lia.
From PV Require Import Num NumR Model_mindex Proofs_mindex Proofs_mindex_mass
  Proofs_mindex_single Proofs_mindex_single_tm Proofs_mindex_single_o.
Import ListNotations.
Open Scope R_scope.

Lemma single_value_good s : good_mass s ->
  exists th, @theory NumR s = Ok th /\ Forall (Rle 0) th /\ nth 0 th 0 <= 1 /\
             Rabs ((1 + rsum th) / 2 - nth 0 th 0 - 1) <= 1 / 10000.
Proof.
  intros Hs. destruct (theory_mass_partial s Hs) as (th & Hth & Hnn & _).
  exists th. split; [assumption|]. split; [assumption|].
  destruct Hs as [->|[->| ->]].
  - rewrite theory_triclinic in Hth. injection Hth as <-.
    split; [eapply Rle_trans; [apply first_bin_triclinic|lra]|exact single_triclinic].
  - rewrite theory_monoclinic in Hth. injection Hth as <-.
    split; [eapply Rle_trans; [apply first_bin_monoclinic|lra]|exact single_monoclinic].
  - rewrite theory_orthorhombic in Hth. injection Hth as <-.
    split; [eapply Rle_trans; [apply first_bin_orthorhombic|lra]|exact single_orthorhombic].
Qed.

(* all grains equal (n >= 2), as_quat returns a unit quaternion: every pair angle is 0 and
   |M - 1| <= 1e-4 -- both product variants, the three systems whose density has mass 1 *)
Theorem mindex_single (as_quat : list R -> Q4) v s (os : list (list R)) o :
  good_mass s -> (2 <= length os)%nat -> Forall (eq o) os -> qnorm2 (as_quat o) = 1 ->
  Forall (eq 0) (@angles NumR v s (map as_quat os)) /\
  exists m, @misorientation_index NumR as_quat v s os = Ok m /\ Rabs (m - 1) <= 1 / 10000.
Proof.
  intros Hs Hn Hall Hq. destruct (single_value_good s Hs) as (th & Hth & Hnn & H0 & Hv).
  destruct (mindex_single_closed as_quat v s os o th Hn Hall Hq Hth Hnn H0) as [Hz Hm].
  split; [assumption|]. eexists. split; [exact Hm|exact Hv].
Qed.

(* non-vacuity of the hypotheses: two equal grains, the identity quaternion *)
Lemma single_nonvacuous :
  good_mass Orthorhombic /\ (2 <= length [[1; 0; 0; 0; 1; 0; 0; 0; 1]; [1; 0; 0; 0; 1; 0; 0; 0; 1]])%nat /\
  qnorm2 (0, 0, 0, 1) = 1.
Proof. split; [right; right; reflexivity|]. split; [cbn; lia|]. unfold qnorm2. qunf. ring. Qed.

(* an upper bound from an upper bound of the theoretical mass (used by Findings/C14_mass.v) *)
Theorem mindex_single_upper (as_quat : list R -> Q4) v s (os : list (list R)) o th c :
  (2 <= length os)%nat -> Forall (eq o) os -> qnorm2 (as_quat o) = 1 ->
  @theory NumR s = Ok th -> Forall (Rle 0) th -> nth 0 th 0 <= 1 -> rsum th <= c ->
  exists m, @misorientation_index NumR as_quat v s os = Ok m /\ m <= (1 + c) / 2.
Proof.
  intros Hn Hall Hq Hth Hnn H0 Hc.
  destruct (mindex_single_closed as_quat v s os o th Hn Hall Hq Hth Hnn H0) as [_ Hm].
  eexists. split; [exact Hm|].
  assert (0 <= nth 0 th 0) by (destruct Hnn; cbn [nth]; lra). lra.
Qed.
