(* Inst_minerals_rhs_gr.v -- eval_rhs traced WITH a get_regime callable (tie T, round 5).
   k_eval_rhs_gr_n1_a{A} regime0 regime ... is the closure eval_rhs of a mineral constructed with the
   regime ordinal `regime0` whose update was given `get_regime = lambda t, x: regime`.  The translator's
   adapter checks that the callable is evaluated exactly once, at (t, get_position(t)), and that its value
   is what is stored on the mineral afterwards; the lemmas state that the vector field is the modelled
   rhs at `regime` -- the constructed regime does not enter. *)
From Coq Require Import Reals ZArith List Bool Lra Lia.
From PV Require Import Num NumR Model_core Model_minerals Inst_core Inst_minerals.
From PV.gen Require Import Gen_core Gen_minerals.
Import ListNotations.
Open Scope R_scope.

Lemma eval_rhs_gr_inst_1_a0 (regime0 : Z) : rhs_stmt (@k_eval_rhs_gr_n1_a0 NumR regime0) 1 [0%Z] 1.
Proof. unfold rhs_stmt, k_eval_rhs_gr_n1_a0. rhs_1. Qed.
Lemma eval_rhs_gr_inst_1_a10 (regime0 : Z) : rhs_stmt (@k_eval_rhs_gr_n1_a10 NumR regime0) 1 [1%Z; 0%Z] 2.
Proof. unfold rhs_stmt, k_eval_rhs_gr_n1_a10. rhs_1. Qed.
