(* Inst_mindex_random.v -- instance lemmas for stats.misorientations_random (tie T, C14).

   For every member of LatticeSystem the translator traces misorientations_random(low, high, member)
   with SYMBOLIC bin edges into one decision tree (k_misorientations_random_SYS: the range check ->
   ValueError, for each of the two edges the four Grimmer branches and `assert False`).  The lemmas
   below state, for ALL real low, high, that this tree is the generic hand-written
   Model_mindex.misorientations_random at that lattice system:

       random_inst_SYS : forall low high, k_misorientations_random_SYS low high = misorientations_random low high SYS

   Proof: both sides are trees of `if Rleb a b`.  The closed rational constants of the model side
   (180/M, 180 M/N, 90/M, N/180, M/90, M/180) are folded to the lowest-terms form the translator
   emits; then the comparison at the head of the generated tree is case-split, which decides the
   same comparison on the model side; the leaves are closed by reflexivity or `ring` under the
   transcendental atoms.  No tactic mentions a generated variable name. *)
From Coq Require Import Reals ZArith List Bool Lra Lia.
From PV Require Import Num NumR Model_mindex Proofs_mindex.
From PV.gen Require Import Gen_mindex.
Import ListNotations.
Open Scope R_scope.

(* dictionary projections without touching `let` *)
Ltac numR_nz :=
  cbv beta iota delta [T nzero none npi nofZ nadd nsub nmul ndiv nopp nabs nsqrt nexp ncos nsin nacos
                       natan npow natan2 nltb nleb neqb NumR].

(* IZR a / IZR b  ->  lowest terms (an integer when b divides a) *)
Ltac canon_div a b :=
  let g := eval vm_compute in (Z.gcd a b) in
  let p := eval vm_compute in (Z.div a g) in
  let q := eval vm_compute in (Z.div b g) in
  lazymatch q with
  | 1%Z => replace (IZR a / IZR b) with (IZR p) by lra
  | _ => lazymatch g with
         | 1%Z => fail
         | _ => replace (IZR a / IZR b) with (IZR p / IZR q) by lra
         end
  end.
Ltac canon_muldiv a b c :=
  let n := eval vm_compute in (Z.mul a b) in
  replace (IZR a * IZR b / IZR c) with (IZR n / IZR c) by lra.
Ltac canon :=
  repeat match goal with
  | |- context [IZR ?a * IZR ?b / IZR ?c] => canon_muldiv a b c
  end;
  repeat match goal with
  | |- context [IZR ?a / IZR ?b] => canon_div a b
  end.

Ltac step :=
  lazymatch goal with
  | |- (if ?c then _ else _) = _ =>
      let H := fresh "H" in destruct c eqn:H; cbv beta iota delta [andb negb]
  end.

(* equality of two real expressions that differ by ring identities (1 * x, x / 1 ...), possibly under
   transcendental functions: ring on the whole term (division as multiplication by an inverse atom),
   else one congruence step and again *)
Ltac req :=
  first [ reflexivity
        | (unfold Rdiv; ring)
        | match goal with
          | |- ?f _ = ?f _ => apply f_equal; req
          | |- ?f _ _ = ?f _ _ => apply f_equal2; req
          end ].

Ltac leaf :=
  cbv beta iota zeta;
  first [ reflexivity | (apply f_equal; req) ].

Ltac random_tac G s :=
  intros;
  let z := eval vm_compute in (Z.of_nat (theta_max s)) in
  unfold G, misorientations_random;
  change (Z.of_nat (theta_max s)) with z;
  cbv beta iota zeta delta [density_edge between density_const_a density_const_b density_const_c branch4 deg2rad rad2deg
                            ntan lattice_MN g_round];
  numR_nz; canon;
  repeat step; leaf.

Lemma random_inst_triclinic (low high : R) :
  @k_misorientations_random_triclinic NumR low high = @misorientations_random NumR low high Triclinic.
Proof. random_tac (@k_misorientations_random_triclinic) Triclinic. Qed.

Lemma random_inst_monoclinic (low high : R) :
  @k_misorientations_random_monoclinic NumR low high = @misorientations_random NumR low high Monoclinic.
Proof. random_tac (@k_misorientations_random_monoclinic) Monoclinic. Qed.
