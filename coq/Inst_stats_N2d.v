(* Inst_stats_N2d.v -- instance lemmas for the generated resample_orientations, 2 snapshots x 2 grains, n_samples omitted (see Inst_stats.v) *)
From Coq Require Import Reals ZArith List Bool Lra Lia Permutation.
From PV Require Import Num NumR Model_stats Proofs_stats Inst_stats.
From PV.gen Require Import Gen_stats.
Import ListNotations.
Open Scope R_scope.

Lemma resample_inst_N2_M2_default :
  inst_stmt 2 2 None 2 (fun pis o f u => @k_resample_N2_M2_default NumR (A o) (A f) (A u) (p0 pis) (p1 pis)).
Proof. inst_tac @k_resample_N2_M2_default. Qed.
