(* Model_npz.v -- hand-written executable model of Mineral.save / Mineral.load /
   Mineral.from_file (src/pydrex/minerals.py) on top of an abstract file system.

   * a file system is an association list  file name -> archive  (first match wins;
     writing a file conses a new binding);
   * an archive (the zip container) is an association list  member name -> blob  in
     write order with LAST-entry-wins lookup (zipfile keeps every duplicate member in
     the file and its name table points to the last one);
   * numpy.savez (whole-file save) REPLACES the archive by the three members
     meta.npy / fractions.npy / orientations.npy and appends ".npz" to a file name that
     lacks it;  the postfix save APPENDS the members meta_<pf> / fractions_<pf> /
     orientations_<pf> (no ".npy") to the archive of the file name as given;
   * NpzFile.__getitem__(k): k if k is a member name, else k ++ ".npy" if k is a member
     name with a trailing ".npy" removed, else KeyError;
   * blobs (NPY byte strings) are abstract: npy / unnpy are parameters (oracle).
   Array elements (type X) are never inspected.  No proofs in this file. *)
From Coq Require Import ZArith List Bool String Ascii Arith.
From PV Require Import Num.
Import ListNotations.
Local Open Scope string_scope.

(* ---- names ------------------------------------------------------------------ *)
Inductive base := BMeta | BFractions | BOrientations.

Definition base_name (b : base) : string :=
  match b with BMeta => "meta" | BFractions => "fractions" | BOrientations => "orientations" end.

(* f"{key}_{postfix}" *)
Definition key (b : base) (pf : string) : string := base_name b ++ "_" ++ pf.

(* name of the zip member written by save *)
Definition member (b : base) (pf : option string) : string :=
  match pf with None => base_name b ++ ".npy" | Some p => key b p end.

(* subscript used by load / from_file:  data["meta"] / data[f"meta_{postfix}"] *)
Definition item (b : base) (pf : option string) : string :=
  match pf with None => base_name b | Some p => key b p end.

(* str.endswith *)
Definition ends_with (suf s : string) : bool :=
  let n := String.length s in
  let m := String.length suf in
  (m <=? n)%nat && String.eqb (substring (n - m) m s) suf.

(* NpzFile: member names with a trailing ".npy" removed *)
Definition strip_npy (s : string) : string :=
  if ends_with ".npy" s then substring 0 (String.length s - 4) s else s.

(* numpy.savez appends ".npz" unless already there; ZipFile uses the name as given *)
Definition save_target (fn : string) (pf : option string) : string :=
  match pf with
  | None => if ends_with ".npz" fn then fn else fn ++ ".npz"
  | Some _ => fn
  end.

Fixpoint shape_eqb (a b : list nat) : bool :=
  match a, b with
  | [], [] => true
  | x :: a', y :: b' => (x =? y)%nat && shape_eqb a' b'
  | _, _ => false
  end.

(* np.array([...], dtype=np.uint8) of Python ints: out of range raises OverflowError *)
Definition to_uint8 (z : Z) : res Z :=
  if (0 <=? z)%Z && (z <? 256)%Z then Ok z else Err OtherError.

Section Npz.
  Context {X : Type}.                    (* array element: a float64 bit pattern *)

  Record nda := mk_nda { shp : list nat; dat : list X }.
  (* result of np.stack: k rows of a common shape; list(a) gives the rows back *)
  Record stacked := mk_stacked { row_shp : list nat; rows : list (list X) }.
  Inductive payload := PMeta (m : list Z) | PStack (s : stacked).

  Record mineral := mk_mineral {
    phase : Z; fabric : Z; regime : Z; n_grains : nat;
    fractions : list nda; orientations : list nda }.

  (* a.shape[0] *)
  Definition shape0 (a : nda) : res nat :=
    match shp a with [] => Err IndexError | n :: _ => Ok n end.
  (* len(a) *)
  Definition len0 (a : nda) : res nat :=
    match shp a with [] => Err TypeError | n :: _ => Ok n end.

  (* np.stack: all arrays must have the same shape *)
  Definition stack (l : list nda) : res stacked :=
    match l with
    | [] => Err ValueError
    | a :: r =>
        if forallb (fun b => shape_eqb (shp b) (shp a)) r
        then Ok (mk_stacked (shp a) (map dat l)) else Err ValueError
    end.

  Definition unstack (s : stacked) : list nda := map (mk_nda (row_shp s)) (rows s).

  (* everything Mineral.save evaluates before it touches the file, in source order *)
  Definition build_data (m : mineral) : res (list Z * stacked * stacked) :=
    if negb (List.length (fractions m) =? List.length (orientations m))%nat then Err ValueError
    else
      match fractions m with
      | [] => Err IndexError
      | f0 :: _ =>
        match shape0 f0 with
        | Err e => Err e
        | Ok nf =>
          match orientations m with
          | [] => Err IndexError
          | o0 :: _ =>
            match shape0 o0 with
            | Err e => Err e
            | Ok no =>
              if (nf =? no)%nat && (no =? n_grains m)%nat then
                bind (to_uint8 (phase m)) (fun p =>
                bind (to_uint8 (fabric m)) (fun f =>
                bind (to_uint8 (regime m)) (fun r =>
                bind (stack (fractions m)) (fun sf =>
                bind (stack (orientations m)) (fun so =>
                Ok ([p; f; r], sf, so))))))
              else Err ValueError
            end
          end
        end
      end.

  Section Blob.
    Context {blob : Type}.
    Variable npy : payload -> blob.            (* numpy.save   (oracle) *)
    Variable unnpy : blob -> option payload.   (* numpy.load of one member (oracle) *)

    Definition archive := list (string * blob).
    Definition filesys := list (string * archive).

    Definition names (ar : archive) : list string := map fst ar.

    (* zipfile: the LAST member of that name *)
    Definition zget (n : string) (ar : archive) : option blob :=
      match find (fun e => String.eqb (fst e) n) (rev ar) with
      | Some e => Some (snd e)
      | None => None
      end.

    Definition npz_get (k : string) (ar : archive) : res payload :=
      let mem :=
        if existsb (String.eqb k) (names ar) then Some k
        else if existsb (String.eqb k) (map strip_npy (names ar)) then Some (k ++ ".npy")
        else None in
      match mem with
      | None => Err KeyError
      | Some n =>
          match zget n ar with
          | None => Err KeyError
          | Some b => match unnpy b with Some p => Ok p | None => Err OtherError end
          end
      end.

    Definition fs_get (fn : string) (fs : filesys) : option archive :=
      match find (fun e => String.eqb (fst e) fn) fs with
      | Some e => Some (snd e)
      | None => None
      end.
    Definition fs_set (fn : string) (ar : archive) (fs : filesys) : filesys := (fn, ar) :: fs.

    Definition entries (pf : option string) (d : list Z * stacked * stacked) : archive :=
      let '(mt, sf, so) := d in
      [ (member BMeta pf, npy (PMeta mt));
        (member BFractions pf, npy (PStack sf));
        (member BOrientations pf, npy (PStack so)) ].

    (* Mineral.save: new file system and the outcome (the file system is returned
       unchanged when an exception is raised) *)
    Definition save (m : mineral) (fn : string) (pf : option string) (fs : filesys)
      : filesys * res unit :=
      match build_data m with
      | Err e => (fs, Err e)
      | Ok d =>
          match pf with
          | None => (fs_set (save_target fn pf) (entries pf d) fs, Ok tt)
          | Some _ =>
              let old := match fs_get fn fs with Some a => a | None => [] end in
              (fs_set (save_target fn pf) (old ++ entries pf d)%list fs, Ok tt)
          end
      end.

    (* the three subscripts of load / from_file, in source order *)
    Definition read_fields (ar : archive) (pf : option string)
      : res (Z * Z * Z * list nda * list nda) :=
      bind (npz_get (item BMeta pf) ar) (fun pm =>
      match pm with
      | PMeta [p; f; r] =>
          bind (npz_get (item BFractions pf) ar) (fun pfr =>
          match pfr with
          | PStack sf =>
              bind (npz_get (item BOrientations pf) ar) (fun por =>
              match por with
              | PStack so => Ok (p, f, r, unstack sf, unstack so)
              | PMeta _ => Err OtherError
              end)
          | PMeta _ => Err OtherError
          end)
      | PMeta _ => Err ValueError          (* tuple unpacking of a wrong length *)
      | PStack _ => Err OtherError
      end).

    Definition open_npz (fn : string) (fs : filesys) : res archive :=
      if negb (ends_with ".npz" fn) then Err ValueError
      else match fs_get fn fs with
           | None => Err OtherError        (* FileNotFoundError *)
           | Some ar => Ok ar
           end.

    (* Mineral.load into the existing object t.  sets_n = true is the code as it is
       (self.n_grains = len(self.fractions[0]), /repo 3f474d8);  sets_n = false is the
       former behaviour (n_grains of the target left alone), kept as the variant whose
       failure C17_load_stale_grain_count_refuted records. *)
    Definition load (sets_n : bool) (t : mineral) (fn : string) (pf : option string)
               (fs : filesys) : res mineral :=
      bind (open_npz fn fs) (fun ar =>
      bind (read_fields ar pf) (fun '(p, f, r, frs, ors) =>
      match ors with
      | [] => Err IndexError
      | _ :: _ =>
        match frs with
        | [] => Err IndexError
        | f0 :: _ =>
            if sets_n then bind (len0 f0) (fun n => Ok (mk_mineral p f r n frs ors))
            else Ok (mk_mineral p f r (n_grains t) frs ors)
        end
      end)).

    (* Mineral.from_file *)
    Definition from_file (fn : string) (pf : option string) (fs : filesys) : res mineral :=
      bind (open_npz fn fs) (fun ar =>
      bind (read_fields ar pf) (fun '(p, f, r, frs, ors) =>
      match frs with
      | [] => Err IndexError
      | f0 :: _ =>
          bind (len0 f0) (fun n =>
          match ors with
          | [] => Err IndexError
          | _ :: _ => Ok (mk_mineral p f r n frs ors)
          end)
      end)).

    (* a history of saves to one file *)
    Definition save_all (fn : string) (l : list (option string * mineral)) (fs : filesys)
      : filesys :=
      fold_left (fun fs pm => fst (save (snd pm) fn (fst pm) fs)) l fs.
  End Blob.
End Npz.

Arguments nda : clear implicits.
Arguments stacked : clear implicits.
Arguments payload : clear implicits.
Arguments mineral : clear implicits.
