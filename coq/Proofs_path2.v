(* Proofs_path2.v -- capstones along EXACT solutions of the modelled texture ODE y' = rhs(t, y)
   (Proofs_path.f, built from Model_minerals.rhs) for C06, C01, C03 and C08.  They connect the
   statements about the vector field (Proofs_rhs, Proofs_core) and about abstract flows
   (Proofs_flow) to the integrated system itself:
     C06  the F block of every exact solution solves dF/dt = L(t).F, whatever the texture does;
          (det F)' = tr L . det F;  det F(b) = det F(a) exp(T(b) - T(a)) for any antiderivative T
          of tr L (in particular det F(b) = det F(a) when tr L = 0: incompressible flow);
     C01  each entry of A_g.A_g^T is constant along exact solutions in the dislocation regimes, as
          long as extract_vars' clip to [-1,1] is inactive (partial: the invariance of that region
          is not proved);
     C03  the sum of the grain volume fractions is constant along exact solutions;
     C08  the vector field of a phase inside an assemblage is the vector field of the single-phase
          problem with mobility phi.M, hence the two problems have the same exact solutions.
   What stays outside: that LSODA's output approximates the exact solution (measured at run time). *)
From Coq Require Import Reals ZArith List Bool Lra Lia.
From Coquelicot Require Import Coquelicot.
From PV Require Import Num NumR Model_core Model_minerals Proofs_core Proofs_total Proofs_minerals Proofs_rhs Proofs_flow Proofs_path.
Import ListNotations.
Open Scope R_scope.

(* ---- list plumbing -------------------------------------------------------------------------- *)
Lemma nth_firstn_lt {A} (d : A) k : forall (l : list A) i, (i < k)%nat -> nth i (firstn k l) d = nth i l d.
Proof.
  induction k as [|k IH]; intros l i H; [lia|].
  destruct l as [|x l]; [destruct i; reflexivity|].
  destruct i as [|i]; cbn [firstn nth]; [reflexivity|apply IH; lia].
Qed.

Lemma nth_skipn_gen {A} (d : A) k : forall (l : list A) j, nth j (skipn k l) d = nth (k + j) l d.
Proof.
  induction k as [|k IH]; intros l j; [reflexivity|].
  destruct l as [|x l]; cbn [Nat.add nth skipn]; [destruct j; reflexivity|apply IH].
Qed.

Lemma skipn_skipn' {A} a : forall b (l : list A), skipn a (skipn b l) = skipn (b + a) l.
Proof.
  intros b; induction b as [|b IH]; intros l; [reflexivity|].
  destruct l as [|x l]; cbn [Nat.add skipn]; [apply skipn_nil|apply IH].
Qed.

Lemma ylist_length n y : length (ylist n y) = (9 + 10 * n)%nat.
Proof. unfold ylist, N. rewrite map_length, seq_length. reflexivity. Qed.

Lemma ylist_nth n y i : (i < 9 + 10 * n)%nat -> nth i (ylist n y) 0 = y i.
Proof.
  intros Hi. unfold ylist, N.
  rewrite (nth_map_in y _ _ 0%nat 0) by (rewrite seq_length; exact Hi).
  rewrite seq_nth by exact Hi. reflexivity.
Qed.

Lemma chunks9_nth (l : list R) n : forall g, (g < n)%nat ->
  nth g (@chunks9 NumR l n) [] = firstn 9 (skipn (9 * g) l).
Proof.
  revert l; induction n as [|n IH]; intros l g Hg; [lia|].
  cbn [chunks9]. destruct g as [|g]; [reflexivity|].
  cbn [nth]. rewrite IH by lia. rewrite skipn_skipn'. do 2 f_equal. lia.
Qed.

Lemma flat9_length (Ads : list (arr R)) : length (flat_map (arr_to_list 9) Ads) = (9 * length Ads)%nat.
Proof.
  induction Ads as [|a Ads IH]; [reflexivity|].
  cbn [flat_map]. rewrite app_length, IH. unfold arr_to_list. rewrite map_length, seq_length. cbn [length]. lia.
Qed.

Lemma flat9_nth (Ads : list (arr R)) d : forall g k, (g < length Ads)%nat -> (k < 9)%nat ->
  nth (9 * g + k) (flat_map (arr_to_list 9) Ads) 0 = nth g Ads d k.
Proof.
  induction Ads as [|a Ads IH]; intros g k Hg Hk; [cbn in Hg; lia|].
  cbn [flat_map]. destruct g as [|g].
  - rewrite app_nth1 by (unfold arr_to_list; rewrite map_length, seq_length; lia).
    cbn [nth]. replace (9 * 0 + k)%nat with k by lia.
    unfold arr_to_list. rewrite (nth_map_in a _ _ 0%nat 0) by (rewrite seq_length; exact Hk).
    rewrite seq_nth by exact Hk. reflexivity.
  - rewrite app_nth2 by (unfold arr_to_list; rewrite map_length, seq_length; lia).
    unfold arr_to_list at 1. rewrite map_length, seq_length.
    replace (9 * S g + k - 9)%nat with (9 * g + k)%nat by lia.
    cbn [nth]. apply IH; [cbn [length] in Hg; lia|exact Hk].
Qed.

Lemma Forall2_nth {A B} (P : A -> B -> Prop) l1 l2 d1 d2 : Forall2 P l1 l2 ->
  forall g, (g < length l1)%nat -> P (nth g l1 d1) (nth g l2 d2).
Proof.
  induction 1 as [|x y l1 l2 Hxy H IH]; intros g Hg; [cbn in Hg; lia|].
  destruct g as [|g]; cbn [nth]; [exact Hxy|apply IH; cbn [length] in Hg; lia].
Qed.

Lemma Forall2_length' {A B} (P : A -> B -> Prop) l1 l2 : Forall2 P l1 l2 -> length l1 = length l2.
Proof. induction 1; cbn [length]; congruence. Qed.

Lemma map2_length_eq {A B C} (h : A -> B -> C) : forall l1 l2, length l1 = length l2 ->
  length (map2 h l1 l2) = length l1.
Proof.
  induction l1 as [|a l1 IH]; intros [|b l2] H; cbn in *; try lia. f_equal. apply IH. lia.
Qed.

Lemma map_nth_seq (l : list R) : map (fun g => nth g l 0) (seq 0 (length l)) = l.
Proof.
  induction l as [|x l IH]; [reflexivity|].
  cbn [length seq map nth]. f_equal. rewrite <- seq_shift, map_map. exact IH.
Qed.

Lemma rsum_map_scale (l : list R) s : rsum (map (fun x => x * s) l) = rsum l * s.
Proof.
  induction l as [|x l IH]; unfold rsum in *; cbn [map fold_right]; [ring|]. rewrite IH. ring.
Qed.

(* derivative of a finite sum of components *)
Lemma is_derive_rsum (h : nat -> R -> R) (h' : nat -> R) (t : R) (l : list nat) :
  (forall g, In g l -> is_derive (h g) t (h' g)) ->
  is_derive (fun u => rsum (map (fun g => h g u) l)) t (rsum (map h' l)).
Proof.
  induction l as [|g l IH]; intros H; unfold rsum in *; cbn [map fold_right].
  - apply (is_derive_const (V := R_NormedModule)).
  - apply (is_derive_plus (V := R_NormedModule)); [apply H; left; reflexivity|].
    apply IH. intros g' Hg'. apply H. right. exact Hg'.
Qed.

(* ---- the vector field at a state given as a function nat -> R -------------------------------- *)
Section Field.
  Variables (regime ph fb : Z) (n : nat) (ass : list Z) (frs : list R) (Sd : list R) (p nn lam M : R).

  Local Notation vfm := (vf regime ph fb n ass frs Sd p nn lam M).
  Local Notation rhsm L s y := (@rhs NumR regime ph fb n ass frs L s Sd p nn lam M (ylist n y)).

  (* what extract_vars hands to the solver kernel at state y: clipped orientations (one flat 3x3 array
     per grain) and clipped + normalised volume fractions *)
  Definition os_of (y : nat -> R) : list (arr R) := map (@aol' NumR) (@chunks9 NumR (@ev_o NumR (ylist n y) n) n).
  Definition fs_of (y : nat -> R) : list R := @ev_f NumR (ylist n y) n.

  Lemma os_of_length y : length (os_of y) = n.
  Proof. unfold os_of. rewrite map_length. apply (chunks9_length 0). Qed.

  Lemma fs_of_length y : length (fs_of y) = n.
  Proof. unfold fs_of. apply ev_f_length. apply ylist_length. Qed.

  (* entry k of grain g handed to the kernel is the clipped state entry 9 + 9 g + k *)
  Lemma os_of_entry y g k d : (g < n)%nat -> (k < 9)%nat ->
    nth g (os_of y) d k = @clip11 NumR (y (9 + 9 * g + k)%nat).
  Proof.
    intros Hg Hk. unfold os_of.
    rewrite (nth_map_in (@aol' NumR) _ _ [] d) by (rewrite (chunks9_length 0); exact Hg).
    rewrite chunks9_nth by exact Hg. unfold aol', mk_arr.
    rewrite nth_firstn_lt by exact Hk. rewrite nth_skipn_gen.
    unfold ev_o.
    rewrite (nth_map_in (@clip11 NumR) _ _ 0 _).
    2:{ rewrite firstn_length, skipn_length, ylist_length. change (T NumR) with R in *. nia. }
    rewrite nth_firstn_lt by nia. rewrite nth_skipn_gen.
    rewrite ylist_nth by nia. reflexivity.
  Qed.

  (* the three possible shapes of the vector field at (L, s, y) *)
  Lemma vf_cases L s y :
    (forall i, (9 <= i)%nat -> vfm L s y i = 0) \/
    (s <> 0 /\ exists phi Ads fds,
       @lookup_fraction NumR ph ass frs = Ok phi /\
       @derivs NumR regime ph fb (os_of y) (fs_of y)
               (@aol' NumR (map (fun x => x / s) (@sym9 NumR L))) (@aol' NumR (map (fun x => x / s) L))
               (@aol' NumR Sd) p nn lam M phi = Ok (Ads, fds) /\
       forall i, vfm L s y i =
         nth i (@mat_mul9 NumR L (@ev_F NumR (ylist n y))
                ++ map (fun x => x * s) (flat_map (arr_to_list 9) Ads) ++ map (fun x => x * s) fds) 0).
  Proof.
    destruct (Req_EM_T s 0) as [->|Hs].
    { left. intros i Hi. apply vf_zero_scale. exact Hi. }
    unfold vf, rhs.
    destruct (@lookup_fraction NumR ph ass frs) as [phi|e] eqn:Hl; [|left; reflexivity].
    assert (Hb : @eqb NumR s (@zero NumR) = false) by (numR; apply Reqb_false; exact Hs).
    rewrite Hb. fold (os_of y). fold (fs_of y).
    destruct (@derivs NumR regime ph fb (os_of y) (fs_of y)
               (@aol' NumR (map (fun x => @div NumR x s) (@sym9 NumR L))) (@aol' NumR (map (fun x => @div NumR x s) L))
               (@aol' NumR Sd) p nn lam M phi) as [[Ads fds]|e] eqn:Hd; [|left; reflexivity].
    right. split; [exact Hs|]. exists phi, Ads, fds. split; [reflexivity|]. split; [exact Hd|].
    intros i. reflexivity.
  Qed.

  Lemma derivs_lengths (os : list (arr R)) (fs : list R) (D L S : arr R) phi Ads fds :
    length fs = length os ->
    @derivs NumR regime ph fb os fs D L S p nn lam M phi = Ok (Ads, fds) ->
    length Ads = length os /\ length fds = length os.
  Proof.
    intros Hl H. unfold derivs in H.
    repeat match type of H with (if ?c then _ else _) = _ => destruct c end; try discriminate;
    try (inversion H; subst; rewrite !map_length; split; reflexivity);
    destruct (@grains NumR ph fb os D L p nn lam) as [rs|] eqn:Hg; try discriminate;
    inversion H; subst; apply grains_length in Hg;
    (split; [rewrite map_length; exact Hg|]);
    rewrite frac_rates_R, map2_length_eq; try exact Hl; rewrite map_length; change (T NumR) with R in *; congruence.
  Qed.

  Lemma mat_mul9_length (a b : list R) : length (@mat_mul9 NumR a b) = 9%nat.
  Proof. reflexivity. Qed.

  (* orientation block: entry k of grain g *)
  Lemma nth_orient (Fd X Y : list R) g k : length Fd = 9%nat -> (9 * g + k < length X)%nat ->
    nth (9 + 9 * g + k) (Fd ++ X ++ Y) 0 = nth (9 * g + k) X 0.
  Proof.
    intros HF HX. rewrite app_nth2 by lia. rewrite HF.
    replace (9 + 9 * g + k - 9)%nat with (9 * g + k)%nat by lia.
    apply app_nth1. exact HX.
  Qed.

  Lemma nth_vol (Fd X Y : list R) m g : length Fd = 9%nat -> length X = (9 * m)%nat ->
    nth (9 + 9 * m + g) (Fd ++ X ++ Y) 0 = nth g Y 0.
  Proof.
    intros HF HX. rewrite app_nth2 by lia. rewrite HF.
    rewrite app_nth2 by lia. rewrite HX. f_equal. lia.
  Qed.

  (* ---- C06: the F block ------------------------------------------------------------------- *)
  Lemma vf_F_block L s y out i j :
    rhsm L s y = Ok out -> (i < 3)%nat -> (j < 3)%nat ->
    vfm L s y (3 * i + j) =
      nth (3 * i) L 0 * y j + nth (3 * i + 1) L 0 * y (3 + j)%nat + nth (3 * i + 2) L 0 * y (6 + j)%nat.
  Proof.
    intros H Hi Hj. unfold vf. rewrite H.
    rewrite <- (nth_firstn_lt 0 9) by lia.
    rewrite (rhs_F_block _ _ _ _ _ _ _ _ _ _ _ _ _ _ _ H).
    rewrite mat_mul9_entries by assumption.
    rewrite !(nth_firstn_lt 0 9) by lia. rewrite !ylist_nth by lia. reflexivity.
  Qed.

  (* rhs does return Ok in every documented regime once the phase is in the assemblage: the
     "rhs Ok" hypothesis of the C06 capstones is satisfiable at every state *)
  Lemma rhs_ok_supported (L : list R) (s : R) (yl : list R) (phi : R) :
    (regime = 0%Z \/ regime = 1%Z \/ regime = 7%Z \/ (dislocation_regime regime /\ valid_pair ph fb /\ nn <> 0)) ->
    @lookup_fraction NumR ph ass frs = Ok phi ->
    exists out, @rhs NumR regime ph fb n ass frs L s Sd p nn lam M yl = Ok out.
  Proof.
    intros Hr Hl. unfold rhs. rewrite Hl.
    match goal with |- context [if ?c then _ else _] => destruct c end; [eexists; reflexivity|].
    match goal with |- context [@derivs NumR regime ph fb ?os ?fs ?D ?LL ?S p nn lam M phi] =>
      assert (Hd : exists v, @derivs NumR regime ph fb os fs D LL S p nn lam M phi = Ok v) end.
    { destruct Hr as [-> | [-> | [-> | [Hd [Hv Hn]]]]]; try (eexists; reflexivity).
      apply derivs_total; assumption. }
    destruct Hd as [[Ads fds] Hd]. rewrite Hd. eexists; reflexivity.
  Qed.
End Field.

(* component k of the velocity-gradient history, as a function of time *)
Definition Lcomp (Lh : R -> list R) (k : nat) (t : R) : R := nth k (Lh t) 0.
(* entry (p,q) of grain g's orientation matrix inside the state vector *)
Definition grainA (y : nat -> R -> R) (g p q : nat) (t : R) : R := y (9 + 9 * g + (3 * p + q))%nat t.
(* sum of the n grain volume entries of the state vector *)
Definition vol_total (n : nat) (y : nat -> R -> R) (t : R) : R :=
  rsum (map (fun g => y (9 + 9 * n + g)%nat t) (seq 0 n)).

Section Solution.
  Variables (regime ph fb : Z) (n : nat) (ass : list Z) (frs : list R) (Sd : list R) (p nn lam M : R).
  Variable Lh : R -> list R.
  Variable sh : R -> R.

  Local Notation vfm := (vf regime ph fb n ass frs Sd p nn lam M).
  Local Notation fm := (f regime ph fb n ass frs Sd p nn lam M Lh sh).
  Local Notation rhs_at t y := (@rhs NumR regime ph fb n ass frs (Lh t%R) (sh t%R) Sd p nn lam M (ylist n (fun j => y j t%R))).
  Local Notation trL t := (Lcomp Lh 0 t + Lcomp Lh 4 t + Lcomp Lh 8 t).

  (* ---- C06 ---------------------------------------------------------------------------------- *)
  Theorem solution_F_block (y : nat -> R -> R) (t : R) :
    (exists out, rhs_at t y = Ok out) ->
    (forall i, (i < 9)%nat -> is_derive (y i) t (fm t (fun j => y j t) i)) ->
    forall i j, (i < 3)%nat -> (j < 3)%nat -> is_derive (y (3 * i + j)%nat) t (LF y (Lcomp Lh) t i j).
  Proof.
    intros [out Hout] Hsol i j Hi Hj.
    pose proof (Hsol (3 * i + j)%nat ltac:(lia)) as Hd. unfold f in Hd.
    rewrite (vf_F_block regime ph fb n ass frs Sd p nn lam M (Lh t) (sh t) (fun j => y j t) out i j Hout Hi Hj) in Hd.
    exact Hd.
  Qed.

  Theorem solution_det_rate (y : nat -> R -> R) (t : R) :
    (exists out, rhs_at t y = Ok out) ->
    (forall i, (i < 9)%nat -> is_derive (y i) t (fm t (fun j => y j t) i)) ->
    is_derive (detF y) t (trL t * detF y t).
  Proof. intros Hok Hsol. apply (det_rate y (Lcomp Lh) t). apply solution_F_block; assumption. Qed.

  (* det F(b) = det F(a) exp(T(b) - T(a)) for every antiderivative T of tr L on [a,b] *)
  Theorem solution_det_exp (y : nat -> R -> R) (a b : R) (Tr : R -> R) :
    a <= b ->
    (forall t, a <= t <= b -> exists out, rhs_at t y = Ok out) ->
    (forall i t, (i < 9)%nat -> a <= t <= b -> is_derive (y i) t (fm t (fun j => y j t) i)) ->
    (forall t, a <= t <= b -> is_derive Tr t (trL t)) ->
    detF y b = detF y a * exp (Tr b - Tr a).
  Proof.
    intros Hab Hok Hsol HTr.
    set (g := fun t => detF y t * exp (- (Tr t - Tr a))).
    assert (Hg : g b = g a).
    { apply zero_derivative_constant; [exact Hab|]. intros t Ht.
      pose proof (solution_det_rate y t (Hok t Ht) (fun i Hi => Hsol i t Hi Ht)) as Hd.
      pose proof (HTr t Ht) as HT. unfold g.
      auto_derive.
      - split; [eexists; exact Hd|]. split; [eexists; exact HT|exact I].
      - replace (Derive (fun x : R => detF y x) t) with (trL t * detF y t) by (symmetry; apply is_derive_unique; exact Hd).
        replace (Derive (fun x : R => Tr x) t) with (trL t) by (symmetry; apply is_derive_unique; exact HT).
        ring. }
    unfold g in Hg. replace (Tr a - Tr a) with 0 in Hg by ring. rewrite Ropp_0, exp_0, Rmult_1_r in Hg.
    rewrite <- Hg. rewrite Rmult_assoc, <- exp_plus.
    replace (- (Tr b - Tr a) + (Tr b - Tr a)) with 0 by ring. rewrite exp_0. ring.
  Qed.

  (* incompressible flow: tr L = 0 on [a,b] *)
  Theorem solution_det_incompressible (y : nat -> R -> R) (a b : R) :
    a <= b ->
    (forall t, a <= t <= b -> exists out, rhs_at t y = Ok out) ->
    (forall i t, (i < 9)%nat -> a <= t <= b -> is_derive (y i) t (fm t (fun j => y j t) i)) ->
    (forall t, a <= t <= b -> trL t = 0) ->
    detF y b = detF y a.
  Proof.
    intros Hab Hok Hsol Htr.
    rewrite (solution_det_exp y a b (fun _ => 0) Hab Hok Hsol).
    - replace (0 - 0) with 0 by ring. rewrite exp_0. ring.
    - intros t Ht. rewrite (Htr t Ht). apply (is_derive_const (V := R_NormedModule)).
  Qed.

  (* constant trace c on [a,b] *)
  Theorem solution_det_const_trace (y : nat -> R -> R) (a b c : R) :
    a <= b ->
    (forall t, a <= t <= b -> exists out, rhs_at t y = Ok out) ->
    (forall i t, (i < 9)%nat -> a <= t <= b -> is_derive (y i) t (fm t (fun j => y j t) i)) ->
    (forall t, a <= t <= b -> trL t = c) ->
    detF y b = detF y a * exp (c * (b - a)).
  Proof.
    intros Hab Hok Hsol Htr.
    rewrite (solution_det_exp y a b (fun t => c * t) Hab Hok Hsol).
    - f_equal. f_equal. ring.
    - intros t Ht. rewrite (Htr t Ht). auto_derive; [exact I|ring].
  Qed.

  (* ---- C01 ---------------------------------------------------------------------------------- *)
  (* pointwise: the rate of (A_g.A_g^T)[r,r'] under the vector field vanishes at every state whose grain-g
     entries lie in [-1,1] (so that extract_vars' clip is the identity on them) *)
  Lemma vf_gram_rate (L : list R) (s : R) (y : nat -> R) g r r' :
    dislocation_regime regime -> (g < n)%nat -> (r < 3)%nat -> (r' < 3)%nat ->
    (forall k, (k < 9)%nat -> -1 <= y (9 + 9 * g + k)%nat <= 1) ->
    let A := fun i j : nat => y (9 + 9 * g + (3 * i + j))%nat in
    let Ad := fun i j : nat => vfm L s y (9 + 9 * g + (3 * i + j))%nat in
    Ad r 0%nat * A r' 0%nat + Ad r 1%nat * A r' 1%nat + Ad r 2%nat * A r' 2%nat
    + (A r 0%nat * Ad r' 0%nat + A r 1%nat * Ad r' 1%nat + A r 2%nat * Ad r' 2%nat) = 0.
  Proof.
    intros Hreg Hg Hr Hr' Hclip A Ad. subst A Ad. cbv beta.
    destruct (vf_cases regime ph fb n ass frs Sd p nn lam M L s y) as [Hz | [Hs [phi [Ads [fds [Hl [Hd Hv]]]]]]].
    - rewrite !Hz by lia. ring.
    - pose proof (derivs_skew _ _ _ _ _ _ _ _ _ _ _ _ _ _ _ Hreg Hd) as Hsk.
      destruct (derivs_lengths regime ph fb p nn lam M _ _ _ _ _ _ _ _
                  (eq_trans (fs_of_length n y) (eq_sym (os_of_length n y))) Hd) as [HlA _].
      rewrite os_of_length in HlA.
      pose (o := nth g (os_of n y) (@zeros9 NumR)). pose (Ag := nth g Ads (@zeros9 NumR)).
      assert (Hog : skew_wrt o Ag).
      { apply Forall2_nth; [exact Hsk|]. rewrite os_of_length. exact Hg. }
      assert (HA : forall k, (k < 9)%nat -> y (9 + 9 * g + k)%nat = o k).
      { intros k Hk. unfold o. rewrite os_of_entry by assumption. symmetry. apply clip11_id. apply Hclip. exact Hk. }
      assert (HAd : forall k, (k < 9)%nat -> vfm L s y (9 + 9 * g + k)%nat = Ag k * s).
      { intros k Hk. rewrite Hv.
        rewrite nth_orient; [|reflexivity|rewrite map_length, flat9_length; change (T NumR) with R in *; nia].
        rewrite (nth_map_in (fun x => x * s) _ _ 0 0) by (rewrite flat9_length; change (T NumR) with R in *; nia).
        rewrite (flat9_nth Ads (@zeros9 NumR)) by (try exact Hk; change (T NumR) with R in *; lia).
        reflexivity. }
      rewrite !HA, !HAd by lia.
      pose proof (Hog r r' Hr Hr') as H0. unfold sym_defect, m3 in H0.
      match goal with |- ?lhs = 0 => replace lhs with (s * 0) by (rewrite <- H0; ring) end. ring.
  Qed.

  (* every entry of A_g(t).A_g(t)^T is constant along an exact solution, while grain g's entries stay in
     [-1,1].  PARTIAL: the invariance of that region (true of orthonormal data) is not proved *)
  Theorem solution_gram_constant (y : nat -> R -> R) (a b : R) g r r' :
    dislocation_regime regime -> a <= b -> (g < n)%nat -> (r < 3)%nat -> (r' < 3)%nat ->
    (forall i t, a <= t <= b -> is_derive (y i) t (fm t (fun j => y j t) i)) ->
    (forall k t, (k < 9)%nat -> a <= t <= b -> -1 <= y (9 + 9 * g + k)%nat t <= 1) ->
    gram (grainA y g) r r' b = gram (grainA y g) r r' a.
  Proof.
    intros Hreg Hab Hg Hr Hr' Hsol Hclip.
    apply (orthonormality_first_integral (grainA y g)
             (fun p q t => fm t (fun j => y j t) (9 + 9 * g + (3 * p + q))%nat) a b Hab).
    - intros p0 q t Ht. apply Hsol. exact Ht.
    - intros t Ht. unfold f, grainA.
      exact (vf_gram_rate (Lh t) (sh t) (fun j => y j t) g r r' Hreg Hg Hr Hr' (fun k Hk => Hclip k t Hk Ht)).
  Qed.

  Theorem solution_keeps_orthonormal (y : nat -> R -> R) (a b : R) g :
    dislocation_regime regime -> a <= b -> (g < n)%nat ->
    (forall i t, a <= t <= b -> is_derive (y i) t (fm t (fun j => y j t) i)) ->
    (forall k t, (k < 9)%nat -> a <= t <= b -> -1 <= y (9 + 9 * g + k)%nat t <= 1) ->
    (forall r r', (r < 3)%nat -> (r' < 3)%nat -> gram (grainA y g) r r' a = if Nat.eqb r r' then 1 else 0) ->
    (forall r r', (r < 3)%nat -> (r' < 3)%nat -> gram (grainA y g) r r' b = if Nat.eqb r r' then 1 else 0).
  Proof.
    intros Hreg Hab Hg Hsol Hclip Ha r r' Hr Hr'.
    rewrite (solution_gram_constant y a b g r r' Hreg Hab Hg Hr Hr' Hsol Hclip). apply Ha; assumption.
  Qed.

  (* ---- C03 ---------------------------------------------------------------------------------- *)
  Lemma clipped_nth (y : nat -> R) g : (g < n)%nat ->
    nth g (clipped_fracs (ylist n y) n) 0 = @clip0 NumR (y (9 + 9 * n + g)%nat).
  Proof.
    intros Hg. unfold clipped_fracs.
    rewrite (nth_map_in (@clip0 NumR) _ _ 0 _).
    2:{ rewrite firstn_length, skipn_length, ylist_length. change (T NumR) with R in *. lia. }
    rewrite nth_firstn_lt by exact Hg. rewrite nth_skipn_gen. rewrite ylist_nth by lia.
    do 2 f_equal. lia.
  Qed.

  Lemma clipped_length (y : nat -> R) : length (clipped_fracs (ylist n y) n) = n.
  Proof.
    unfold clipped_fracs. rewrite map_length, firstn_length, skipn_length, ylist_length.
    change (T NumR) with R in *. lia.
  Qed.

  (* some grain with positive volume: the normalisation of extract_vars does not divide by zero *)
  Lemma guard_of_positive (y : nat -> R) : (exists g, (g < n)%nat /\ 0 < y (9 + 9 * n + g)%nat) ->
    0 < rsum (clipped_fracs (ylist n y) n).
  Proof.
    intros [g [Hg Hpos]].
    apply Rlt_le_trans with (nth g (clipped_fracs (ylist n y) n) 0).
    - rewrite clipped_nth by exact Hg. rewrite clip0_id by lra. exact Hpos.
    - apply rsum_ge_member; [apply clipped_nonneg|]. apply nth_In. rewrite clipped_length. exact Hg.
  Qed.

  Lemma vf_volume_sum (L : list R) (s : R) (y : nat -> R) :
    (exists g, (g < n)%nat /\ 0 < y (9 + 9 * n + g)%nat) ->
    rsum (map (fun g => vfm L s y (9 + 9 * n + g)%nat) (seq 0 n)) = 0.
  Proof.
    intros Hpos. apply guard_of_positive in Hpos.
    destruct (vf_cases regime ph fb n ass frs Sd p nn lam M L s y) as [Hz | [Hs [phi [Ads [fds [Hl [Hd Hv]]]]]]].
    - rewrite (map_ext _ (fun _ => 0)) by (intros g; apply Hz; lia). apply rsum_zeros.
    - destruct (derivs_lengths regime ph fb p nn lam M _ _ _ _ _ _ _ _
                  (eq_trans (fs_of_length n y) (eq_sym (os_of_length n y))) Hd) as [HlA Hlf].
      rewrite os_of_length in HlA, Hlf.
      rewrite (map_ext _ (fun g => nth g (map (fun x => x * s) fds) 0)).
      2:{ intros g. rewrite Hv. apply nth_vol; [reflexivity|].
          rewrite map_length, flat9_length. change (T NumR) with R in *. lia. }
      replace n with (length (map (fun x => x * s) fds)) at 1 by (rewrite map_length; exact Hlf).
      rewrite map_nth_seq, rsum_map_scale.
      rewrite (derivs_sum_zero _ _ _ _ _ _ _ _ _ _ _ _ _ _ _
                 (eq_trans (os_of_length n y) (eq_sym (fs_of_length n y)))
                 (proj2 (ev_f_valid (ylist n y) n Hpos)) Hd).
      ring.
  Qed.

  Theorem solution_volume_constant (y : nat -> R -> R) (a b : R) :
    a <= b ->
    (forall i t, a <= t <= b -> is_derive (y i) t (fm t (fun j => y j t) i)) ->
    (forall t, a <= t <= b -> exists g, (g < n)%nat /\ 0 < y (9 + 9 * n + g)%nat t) ->
    vol_total n y b = vol_total n y a.
  Proof.
    intros Hab Hsol Hpos. apply zero_derivative_constant; [exact Hab|]. intros t Ht.
    rewrite <- (vf_volume_sum (Lh t) (sh t) (fun j => y j t) (Hpos t Ht)).
    unfold vol_total.
    apply (is_derive_rsum (fun g u => y (9 + 9 * n + g)%nat u)
             (fun g => vfm (Lh t) (sh t) (fun j => y j t) (9 + 9 * n + g)%nat) t (seq 0 n)).
    intros g _. apply (Hsol (9 + 9 * n + g)%nat t Ht).
  Qed.
End Solution.

(* ---- C08: a phase inside an assemblage = the single-phase problem with mobility phi.M ------------ *)
Lemma rhs_multiphase_is_single_phase regime ph fb n ass frs (L : list R) (s : R) Sd p nn lam M (yl : list R) phi :
  @lookup_fraction NumR ph ass frs = Ok phi ->
  @rhs NumR regime ph fb n ass frs L s Sd p nn lam M yl
  = @rhs NumR regime ph fb n [ph] [1] L s Sd p nn lam (phi * M) yl.
Proof.
  intros Hl. rewrite (rhs_only_own_fraction regime ph fb n ass frs L s Sd p nn lam M yl phi Hl).
  unfold rhs, lookup_fraction. cbn [index_of]. rewrite Z.eqb_refl. cbn [nth_error].
  match goal with |- context [@derivs NumR regime ph fb ?os ?fs ?D ?LL ?S p nn lam M phi] =>
    rewrite (derivs_fraction_times_mobility regime ph fb os fs D LL S p nn lam M phi) end.
  reflexivity.
Qed.

Lemma vf_multiphase_is_single_phase regime ph fb n ass frs Sd p nn lam M phi (L : list R) (s : R) y i :
  @lookup_fraction NumR ph ass frs = Ok phi ->
  vf regime ph fb n ass frs Sd p nn lam M L s y i = vf regime ph fb n [ph] [1] Sd p nn lam (phi * M) L s y i.
Proof.
  intros Hl. unfold vf.
  rewrite (rhs_multiphase_is_single_phase regime ph fb n ass frs L s Sd p nn lam M (ylist n y) phi Hl).
  reflexivity.
Qed.

Theorem multiphase_solution_is_single_phase regime ph fb n ass frs Sd p nn lam M phi
        (Lh : R -> list R) (sh : R -> R) (y : nat -> R -> R) (a b : R) :
  @lookup_fraction NumR ph ass frs = Ok phi ->
  (forall t z i, f regime ph fb n ass frs Sd p nn lam M Lh sh t z i
               = f regime ph fb n [ph] [1] Sd p nn lam (phi * M) Lh sh t z i) /\
  ((forall i t, a <= t <= b -> is_derive (y i) t (f regime ph fb n ass frs Sd p nn lam M Lh sh t (fun j => y j t) i))
   <-> (forall i t, a <= t <= b ->
          is_derive (y i) t (f regime ph fb n [ph] [1] Sd p nn lam (phi * M) Lh sh t (fun j => y j t) i))).
Proof.
  intros Hl.
  assert (E : forall t z i, f regime ph fb n ass frs Sd p nn lam M Lh sh t z i
               = f regime ph fb n [ph] [1] Sd p nn lam (phi * M) Lh sh t z i).
  { intros t z i. unfold f. apply vf_multiphase_is_single_phase. exact Hl. }
  split; [exact E|].
  split; intros H i t Ht; [rewrite <- E | rewrite E]; apply H; exact Ht.
Qed.

(* ---- non-vacuity ------------------------------------------------------------------------------ *)
(* (1) with a vanishing velocity gradient every constant state is an exact solution (any regime, any
       parameters): the solution hypotheses are satisfiable together with any condition on the state *)
Lemma vf_zero_L regime ph fb n ass frs Sd p nn lam M (y : nat -> R) i :
  vf regime ph fb n ass frs Sd p nn lam M (repeat 0 9) 0 y i = 0.
Proof.
  destruct (le_lt_dec 9 i) as [Hi|Hi]; [apply vf_zero_scale; exact Hi|].
  unfold vf.
  destruct (@rhs NumR regime ph fb n ass frs (repeat 0 9) 0 Sd p nn lam M (ylist n y)) as [out|e] eqn:H; [|reflexivity].
  rewrite <- (nth_firstn_lt 0 9) by exact Hi.
  rewrite (rhs_F_block _ _ _ _ _ _ _ _ _ _ _ _ _ _ _ H).
  apply all_zero_nth. apply mat_mul9_zero.
Qed.

Lemma constant_state_is_solution regime ph fb n ass frs Sd p nn lam M (y0 : nat -> R) :
  forall i t, is_derive (fun _ : R => y0 i) t
    (f regime ph fb n ass frs Sd p nn lam M (fun _ => repeat 0 9) (fun _ => 0) t (fun j => y0 j) i).
Proof.
  intros i t. unfold f. rewrite vf_zero_L. apply (is_derive_const (V := R_NormedModule)).
Qed.

Definition y0_example : nat -> R :=
  fun i => nth i [1;0;0; 0;1;0; 0;0;1;  1;0;0; 0;1;0; 0;0;1;  0;1;0; -1;0;0; 0;0;1;  0.25; 0.75] 0.

(* olivine A-type (phase 0, fabric 0), 2 grains, dislocation creep (regime 4): the constant state y0_example is
   an exact solution for L = 0; its orientation entries lie in [-1,1]; grain 1 has positive volume; rhs is
   Ok; grain 1 is orthonormal *)
Lemma solution_hyps_nonvacuous_proof :
  let y := fun (i : nat) (_ : R) => y0_example i in
  dislocation_regime 4 /\
  (forall i t, is_derive (y i) t
     (f 4 0 0 2 [0%Z] [1] [] 1.5 3.5 30 125 (fun _ => repeat 0 9) (fun _ => 0) t (fun j => y j t) i)) /\
  (forall g k t, (g < 2)%nat -> (k < 9)%nat -> -1 <= y (9 + 9 * g + k)%nat t <= 1) /\
  (forall t, exists g, (g < 2)%nat /\ 0 < y (9 + 9 * 2 + g)%nat t) /\
  (forall t, exists out, @rhs NumR 4 0 0 2 [0%Z] [1] (repeat 0 9) 0 [] 1.5 3.5 30 125 (ylist 2 (fun j => y j t)) = Ok out) /\
  (forall r r', (r < 3)%nat -> (r' < 3)%nat -> gram (grainA y 1) r r' 0 = if Nat.eqb r r' then 1 else 0).
Proof.
  cbv zeta. split; [left; reflexivity|]. split; [|split; [|split; [|split]]].
  - intros i t. apply (constant_state_is_solution 4 0 0 2 [0%Z] [1] [] 1.5 3.5 30 125 y0_example).
  - intros g k t Hg Hk. destruct g as [|[|g]]; [| |lia];
      do 9 (destruct k as [|k]; [unfold y0_example; cbn [Nat.add Nat.mul nth]; lra|]); lia.
  - intros t. exists 1%nat. split; [lia|]. unfold y0_example; cbn [Nat.add Nat.mul nth]. lra.
  - intros t.
    destruct (rhs_zero_strain_rate 4 0 0 2 [0%Z] [1] (repeat 0 9) [] 1.5 3.5 30 125
                (ylist 2 (fun j => y0_example j)) 1 eq_refl) as [out [Ho _]].
    exists out. exact Ho.
  - intros r r' Hr Hr'. unfold gram, grainA, y0_example.
    destruct r as [|[|[|r]]]; [| | |lia]; destruct r' as [|[|[|r']]]; try lia;
      cbn [Nat.add Nat.mul nth Nat.eqb]; ring.
Qed.

(* (2) a genuinely evolving exact solution with rhs Ok: pure shear L = diag(1,-1,0) (strain-rate scale 1) in
       the viscosity-bound regime 0, F(t) = diag(e^t, e^-t, 1), texture constant *)
Definition shear_L : list R := [1;0;0; 0;-1;0; 0;0;0].
Definition shear_y (i : nat) (t : R) : R :=
  match i with
  | 0%nat => exp t | 4%nat => exp (- t) | 8%nat => 1
  | _ => y0_example i * (if Nat.ltb i 9 then 0 else 1)
  end.

Lemma shear_is_solution_proof :
  (forall i t, is_derive (shear_y i) t
     (f 0 0 0 2 [0%Z] [1] [] 1.5 3.5 30 125 (fun _ => shear_L) (fun _ => 1) t (fun j => shear_y j t) i)) /\
  (forall t, exists out, @rhs NumR 0 0 0 2 [0%Z] [1] shear_L 1 [] 1.5 3.5 30 125 (ylist 2 (fun j => shear_y j t)) = Ok out) /\
  (forall t, Lcomp (fun _ => shear_L) 0 t + Lcomp (fun _ => shear_L) 4 t + Lcomp (fun _ => shear_L) 8 t = 0) /\
  (forall t, detF shear_y t = 1).
Proof.
  assert (Hok : forall t, exists out, @rhs NumR 0 0 0 2 [0%Z] [1] shear_L 1 [] 1.5 3.5 30 125 (ylist 2 (fun j => shear_y j t)) = Ok out).
  { intros t. apply (rhs_ok_supported 0 0 0 2 [0%Z] [1] [] 1.5 3.5 30 125 shear_L 1 _ 1); [left; reflexivity|reflexivity]. }
  split; [|split; [exact Hok|split]].
  - intros i t. unfold f.
    destruct (le_lt_dec 9 i) as [Hi|Hi].
    + rewrite (vf_null_regime 0 0 0 2 [0%Z] [1] [] 1.5 3.5 30 125 shear_L 1 _ i (or_introl eq_refl) Hi).
      do 9 (destruct i as [|i]; [lia|]). cbn [shear_y Nat.ltb Nat.leb].
      apply (is_derive_const (V := R_NormedModule)).
    + destruct (Hok t) as [out Ho].
      assert (Hij : exists a b, (a < 3)%nat /\ (b < 3)%nat /\ i = (3 * a + b)%nat).
      { exists (i / 3)%nat, (i mod 3)%nat. split; [apply Nat.div_lt_upper_bound; lia|].
        split; [apply Nat.mod_upper_bound; lia|apply Nat.div_mod; lia]. }
      destruct Hij as [a [b [Ha [Hb ->]]]].
      rewrite (vf_F_block 0 0 0 2 [0%Z] [1] [] 1.5 3.5 30 125 shear_L 1 _ out a b Ho Ha Hb).
      destruct a as [|[|[|a]]]; [| | |lia]; destruct b as [|[|[|b]]]; try lia;
        cbn [Nat.add Nat.mul shear_L nth shear_y Nat.ltb Nat.leb y0_example];
        unfold shear_y; cbn [Nat.ltb Nat.leb y0_example nth];
        auto_derive; try exact I; ring.
  - intros t. unfold Lcomp, shear_L. cbn [nth]. ring.
  - intros t. unfold detF, shear_y, y0_example. cbn [nth Nat.ltb Nat.leb].
    replace (exp t * (exp (- t) * 1 - 0 * 0 * (0 * 0)) - 0 * 0 * (0 * 0 * 1 - 0 * 0 * (0 * 0)) + 0 * 0 * (0 * 0 * (0 * 0) - exp (- t) * (0 * 0)))
      with (exp t * exp (- t)) by ring.
    rewrite <- exp_plus. replace (t + - t) with 0 by ring. apply exp_0.
Qed.

(* C08: hypotheses satisfiable: enstatite (phase 1) with fraction 0.3 in a two-phase assemblage *)
Lemma C08_solution_nonvacuous_proof : @lookup_fraction NumR 1 [0; 1]%Z [0.7; 0.3] = Ok 0.3.
Proof. reflexivity. Qed.
