(* Inst_density_inv.v -- instance lemmas for the generated point_density, kernels linear_inverse_kamb and square_inverse_kamb (one fork per counter and datum) (see Inst_density.v) *)
From Coq Require Import Reals ZArith List Bool Lra Lia.
From PV Require Import Num NumR Model_density Inst_density.
From PV.gen Require Import Gen_geometry Gen_density.
Import ListNotations.
Open Scope R_scope.

Lemma point_density_inst_k3_a1_g2_n1 : density_stmt 3 true 2 1 (@k_point_density_k3_a1_g2_n1 NumR).
Proof. density_tac @k_point_density_k3_a1_g2_n1. Qed.
Lemma point_density_inst_k3_a0_g2_n1 : density_stmt 3 false 2 1 (@k_point_density_k3_a0_g2_n1 NumR).
Proof. density_tac @k_point_density_k3_a0_g2_n1. Qed.
Lemma point_density_inst_k4_a1_g2_n1 : density_stmt 4 true 2 1 (@k_point_density_k4_a1_g2_n1 NumR).
Proof. density_tac @k_point_density_k4_a1_g2_n1. Qed.
Lemma point_density_inst_k4_a0_g2_n1 : density_stmt 4 false 2 1 (@k_point_density_k4_a0_g2_n1 NumR).
Proof. density_tac @k_point_density_k4_a0_g2_n1. Qed.
