(* NumR.v -- the real-number instance of Num; every theorem is about this instance. *)
From Coq Require Import Reals ZArith List Lra Lia.
From PV Require Import Num.
Open Scope R_scope.

Definition Rltb (x y : R) : bool := if Rlt_dec x y then true else false.
Definition Rleb (x y : R) : bool := if Rle_dec x y then true else false.
Definition Reqb (x y : R) : bool := if Req_EM_T x y then true else false.

(* x ** y as IEEE/C pow defines it on the domain the code uses (x >= 0):
   pow(x, 0) = 1, pow(0, y) = 0 for y > 0; (pow(0, y<0) = inf is excluded by
   hypotheses of the theorems that meet it) *)
Definition Rpow (x y : R) : R :=
  if Req_EM_T y 0 then 1 else if Req_EM_T x 0 then 0 else Rpower x y.

Definition Ratan2 (y x : R) : R :=
  if Rlt_dec 0 x then atan (y / x)
  else if Rlt_dec x 0 then (if Rle_dec 0 y then atan (y / x) + PI else atan (y / x) - PI)
  else if Rlt_dec 0 y then PI / 2 else if Rlt_dec y 0 then - PI / 2 else 0.

Definition NumR : Num := {|
  T := R; nzero := 0; none := 1; npi := PI; nofZ := IZR;
  nadd := Rplus; nsub := Rminus; nmul := Rmult; ndiv := Rdiv; nopp := Ropp;
  nabs := Rabs; nsqrt := sqrt; nexp := exp; ncos := cos; nsin := sin;
  nacos := acos; natan := atan; npow := Rpow; natan2 := Ratan2;
  nltb := Rltb; nleb := Rleb; neqb := Reqb |}.

(* unfold the dictionary projections so that ring / field / lra see plain R terms *)
Ltac numR :=
  cbv [T nzero none npi nofZ nadd nsub nmul ndiv nopp nabs nsqrt nexp ncos nsin nacos
       natan npow natan2 nltb nleb neqb NumR] in *.

Lemma Rltb_true x y : Rltb x y = true <-> x < y.
Proof. unfold Rltb; destruct (Rlt_dec x y); split; intros; try easy. Qed.
Lemma Rltb_false x y : Rltb x y = false <-> y <= x.
Proof. unfold Rltb; destruct (Rlt_dec x y); split; intros; try easy; lra. Qed.
Lemma Rleb_true x y : Rleb x y = true <-> x <= y.
Proof. unfold Rleb; destruct (Rle_dec x y); split; intros; try easy. Qed.
Lemma Rleb_false x y : Rleb x y = false <-> y < x.
Proof. unfold Rleb; destruct (Rle_dec x y); split; intros; try easy; lra. Qed.
Lemma Reqb_true x y : Reqb x y = true <-> x = y.
Proof. unfold Reqb; destruct (Req_EM_T x y); split; intros; try easy. Qed.
Lemma Reqb_false x y : Reqb x y = false <-> x <> y.
Proof. unfold Reqb; destruct (Req_EM_T x y); split; intros; try easy. Qed.

(* turn boolean comparison facts in the context into propositions *)
Ltac bool2prop :=
  repeat match goal with
  | H : Rltb _ _ = true |- _ => apply Rltb_true in H
  | H : Rltb _ _ = false |- _ => apply Rltb_false in H
  | H : Rleb _ _ = true |- _ => apply Rleb_true in H
  | H : Rleb _ _ = false |- _ => apply Rleb_false in H
  | H : Reqb _ _ = true |- _ => apply Reqb_true in H
  | H : Reqb _ _ = false |- _ => apply Reqb_false in H
  end.

Lemma Rpow_nonneg x y : 0 <= x -> 0 <= Rpow x y.
Proof.
  intros Hx; unfold Rpow. destruct (Req_EM_T y 0); [lra|].
  destruct (Req_EM_T x 0); [lra|]. unfold Rpower. left. apply exp_pos.
Qed.
