(* Proofs_mindex_mass.v -- the theoretical random-misorientation density of the model
   (stats.misorientations_random on the unit bins): non-negativity and total mass, by
   kernel-checked interval arithmetic (CoqInterval). *)
From Coq Require Import Reals ZArith List Bool Lra Lia.
From Interval Require Import Tactic.
From PV Require Import Num NumR Model_mindex Proofs_mindex.
Import ListNotations.
Open Scope R_scope.

Lemma between_true lo x hi : lo <= x <= hi -> @between NumR lo x hi = true.
Proof.
  intros [A B]. unfold between; numR.
  apply andb_true_intro; split; apply Rleb_true; assumption.
Qed.
Lemma between_false lo x hi : x < lo \/ hi < x -> @between NumR lo x hi = false.
Proof.
  intros H. unfold between; numR. apply andb_false_iff.
  destruct H; [left|right]; apply Rleb_false; assumption.
Qed.

Lemma collect_map_ok {A B} (f : A -> res B) (h : A -> B) l :
  (forall a, In a l -> f a = Ok (h a)) -> collect (map f l) = Ok (map h l).
Proof.
  induction l as [|a l IH]; intros H; cbn [map collect]; [reflexivity|].
  rewrite (H a (or_introl eq_refl)), IH; [reflexivity|]. intros b Hb. apply H. now right.
Qed.

Definition edge (k : nat) : R := IZR (Z.of_nat k).
Definition trapz (g : nat -> R) (k : nat) : R := (g k + g (S k)) / 2.

(* if the density at every integer edge 0..theta_max is given by g, the theoretical
   histogram is the list of trapezoid values *)
Lemma theory_form s (g : nat -> R) :
  (forall k, (k <= theta_max s)%nat -> @density_edge NumR s (edge k) = Ok (g k)) ->
  @theory NumR s = Ok (map (trapz g) (seq 0 (theta_max s))).
Proof.
  intros H. unfold theory. apply collect_map_ok. intros k Hk. apply in_seq in Hk.
  unfold misorientations_random. unfold edge in H. numR.
  replace (Rleb 0 (IZR (Z.of_nat k))) with true by (symmetry; apply Rleb_true; apply (IZR_le 0); lia).
  replace (Rleb (IZR (Z.of_nat k)) (IZR (Z.of_nat (S k)))) with true by (symmetry; apply Rleb_true; apply IZR_le; lia).
  replace (Rleb (IZR (Z.of_nat (S k))) (IZR (Z.of_nat (theta_max s)))) with true by (symmetry; apply Rleb_true; apply IZR_le; lia).
  cbn [andb negb]. rewrite (H k), (H (S k)) by lia. reflexivity.
Qed.

(* sum of the trapezoid values *)
Lemma rsum_trapz g a n :
  rsum (map (trapz g) (seq a n)) = rsum (map g (seq a n)) + (g (a + n)%nat - g a) / 2.
Proof.
  revert a; induction n as [|n IH]; intros a.
  - cbn. rewrite Nat.add_0_r. lra.
  - cbn [seq map rsum fold_right]. fold (rsum (map (trapz g) (seq (S a) n))) (rsum (map g (seq (S a) n))).
    rewrite IH. replace (S a + n)%nat with (a + S n)%nat by lia. unfold trapz. lra.
Qed.

Ltac edge_num := cbv [edge Z.of_nat Pos.of_succ_nat Pos.succ].

(* ------------------------------------------------------------------------- *)
(* triclinic: (1/180)(1 - cos) on [0, 180]                                   *)
(* ------------------------------------------------------------------------- *)
Definition g_first (N : R) (k : nat) : R := (N / 180) * (1 - cos (edge k * (PI / 180))).

Lemma density_triclinic k : (k <= 180)%nat -> @density_edge NumR Triclinic (edge k) = Ok (g_first 1 k).
Proof.
  intros Hk. unfold density_edge. cbn [lattice_MN].
  assert (E: 0 <= edge k <= 180) by (unfold edge; split; [apply (IZR_le 0); lia|apply (IZR_le _ 180); lia]).
  rewrite between_true by (numR; lra). unfold g_first, deg2rad. numR. reflexivity.
Qed.

Lemma g_first_nonneg N k : 0 <= N -> 0 <= g_first N k.
Proof.
  intros HN. unfold g_first. pose proof (COS_bound (edge k * (PI / 180))) as [_ B].
  apply Rmult_le_pos; [|lra]. apply Rmult_le_pos; [assumption|lra].
Qed.

Lemma Forall_trapz_nonneg g l : (forall k, 0 <= g k) -> Forall (Rle 0) (map (trapz g) l).
Proof.
  intros H. apply Forall_forall. intros x Hx. apply in_map_iff in Hx as (k & <- & _).
  unfold trapz. pose proof (H k). pose proof (H (S k)). lra.
Qed.

Lemma mass_triclinic : Rabs (rsum (map (trapz (g_first 1)) (seq 0 180)) - 1) <= 1 / 1000.
Proof.
  rewrite rsum_trapz. cbn [seq map rsum fold_right Nat.add]. unfold g_first. edge_num.
  interval with (i_prec 40).
Qed.

Lemma Forall_trapz_nonneg_upto g a n :
  (forall k, (k <= a + n)%nat -> 0 <= g k) -> Forall (Rle 0) (map (trapz g) (seq a n)).
Proof.
  intros H. apply Forall_forall. intros x Hx. apply in_map_iff in Hx as (k & <- & Hk).
  apply in_seq in Hk. unfold trapz. pose proof (H k ltac:(lia)). pose proof (H (S k) ltac:(lia)). lra.
Qed.

Lemma edge_bounds k n : (k <= n)%nat -> 0 <= edge k <= IZR (Z.of_nat n).
Proof. intros H. unfold edge. split; [apply (IZR_le 0); lia|apply IZR_le; lia]. Qed.
Lemma edge_gt k n : (n < k)%nat -> IZR (Z.of_nat n) + 1 <= edge k.
Proof. intros H. unfold edge. rewrite <- (plus_IZR _ 1). apply IZR_le. lia. Qed.

(* ------------------------------------------------------------------------- *)
(* the second branch: (N/180) a sin d, a = tan(90/M degrees)                  *)
(* ------------------------------------------------------------------------- *)
Definition a_of (M : Z) : R := @density_const_a NumR M.
Definition g_second (M : Z) (N : R) (k : nat) : R := ((N / 180) * a_of M) * sin (edge k * (PI / 180)).

Lemma a_of_expand M : a_of M = sin (IZR 90 / IZR M * (PI / IZR 180)) / cos (IZR 90 / IZR M * (PI / IZR 180)).
Proof. reflexivity. Qed.

Lemma g_second_nonneg M N k : 0 <= N -> 0 <= a_of M -> (k <= 180)%nat -> 0 <= g_second M N k.
Proof.
  intros HN Ha Hk. unfold g_second. apply Rmult_le_pos.
  - apply Rmult_le_pos; [|assumption]. apply Rmult_le_pos; lra.
  - apply sin_ge_0.
    + pose proof (edge_bounds k 180 Hk) as [A _]. pose proof PI_RGT_0. apply Rmult_le_pos; lra.
    + pose proof (edge_bounds k 180 Hk) as [_ B]. cbn in B. pose proof PI_RGT_0.
      replace PI with (180 * (PI / 180)) at 2 by field. apply Rmult_le_compat_r; lra.
Qed.

(* two-branch systems: first branch up to k1 = 180/M, second up to theta_max *)
Definition g_two (M : Z) (N : R) (k1 : nat) (k : nat) : R :=
  if (k <=? k1)%nat then g_first N k else g_second M N k.

Lemma density_two_branch s Mz Nz k1 k :
  lattice_MN s = (Mz, Nz) -> IZR 180 / IZR Mz = IZR (Z.of_nat k1) ->
  IZR (Z.of_nat (theta_max s)) <= IZR 180 * IZR Mz / IZR Nz ->
  (k <= theta_max s)%nat ->
  @density_edge NumR s (edge k) = Ok (g_two Mz (IZR Nz) k1 k).
Proof.
  intros HMN H1 H2 Hk. unfold density_edge. rewrite HMN. unfold g_two.
  destruct (Nat.leb_spec k k1) as [Hle|Hgt].
  - pose proof (edge_bounds k k1 Hle). rewrite between_true by (numR; lra).
    unfold g_first, deg2rad. numR. reflexivity.
  - pose proof (edge_gt k k1 Hgt). pose proof (edge_bounds k _ Hk).
    rewrite between_false by (numR; right; lra).
    rewrite between_true by (numR; lra).
    unfold g_second, deg2rad, a_of. numR. reflexivity.
Qed.

Lemma a2_bounds : 0 <= a_of 2 <= 1 + 1 / 1000000.
Proof. rewrite a_of_expand. split; interval. Qed.
Lemma a4_bounds : 0 <= a_of 4.
Proof. rewrite a_of_expand. interval. Qed.
Lemma a6_bounds : 0 <= a_of 6.
Proof. rewrite a_of_expand. interval. Qed.

Lemma g_two_nonneg M N k1 k : 0 <= N -> 0 <= a_of M -> (k <= 180)%nat -> 0 <= g_two M N k1 k.
Proof.
  intros. unfold g_two. destruct (k <=? k1)%nat; [now apply g_first_nonneg|now apply g_second_nonneg].
Qed.

Ltac mass_two :=
  rewrite rsum_trapz; cbn [seq map rsum fold_right Nat.add];
  cbv [g_two Nat.leb g_first g_second]; rewrite a_of_expand; edge_num.

Lemma mass_monoclinic : Rabs (rsum (map (trapz (g_two 2 2 90)) (seq 0 180)) - 1) <= 1 / 1000.
Proof. mass_two. interval with (i_prec 40). Qed.

Lemma mass_tetragonal : rsum (map (trapz (g_two 4 8 45)) (seq 0 90)) <= 95 / 100.
Proof. mass_two. interval with (i_prec 40). Qed.

Lemma mass_hexagonal : rsum (map (trapz (g_two 6 12 30)) (seq 0 90)) <= 98 / 100.
Proof. mass_two. interval with (i_prec 40). Qed.

Lemma theory_triclinic : @theory NumR Triclinic = Ok (map (trapz (g_first 1)) (seq 0 180)).
Proof. apply (theory_form Triclinic). intros k Hk. now apply density_triclinic. Qed.
Lemma theory_monoclinic : @theory NumR Monoclinic = Ok (map (trapz (g_two 2 2 90)) (seq 0 180)).
Proof.
  apply (theory_form Monoclinic). intros k Hk.
  apply (density_two_branch Monoclinic 2 2 90); [reflexivity|cbn; lra|cbn; lra|assumption].
Qed.
Lemma theory_tetragonal : @theory NumR Tetragonal = Ok (map (trapz (g_two 4 8 45)) (seq 0 90)).
Proof.
  apply (theory_form Tetragonal). intros k Hk.
  apply (density_two_branch Tetragonal 4 8 45); [reflexivity|cbn; lra|cbn; lra|assumption].
Qed.
Lemma theory_hexagonal : @theory NumR Hexagonal = Ok (map (trapz (g_two 6 12 30)) (seq 0 90)).
Proof.
  apply (theory_form Hexagonal). intros k Hk.
  apply (density_two_branch Hexagonal 6 12 30); [reflexivity|cbn; lra|cbn; lra|assumption].
Qed.

(* ------------------------------------------------------------------------- *)
(* orthorhombic: four branches                                               *)
(* ------------------------------------------------------------------------- *)
Lemma round_upto_val n : forall k j x, (0 <= j)%Z -> (j <= Z.of_nat n)%Z ->
  IZR (k + j) - 1 / 2 <= x < IZR (k + j) + 1 / 2 -> @round_upto NumR n k x = (k + j)%Z.
Proof.
  induction n as [|n IH]; intros k j x H0 H1 Hx.
  - cbn in H1. assert (j = 0%Z) by lia. subst. cbn. lia.
  - cbn [round_upto]. numR. unfold Rltb. destruct (Rlt_dec x (IZR k + 1 / 2)) as [Hlt|Hge].
    + destruct (Z.eq_dec j 0) as [->|Hj]; [lia|]. exfalso.
      assert (IZR k + 1 <= IZR (k + j)) by (rewrite <- (plus_IZR k 1); apply IZR_le; lia). lra.
    + destruct (Z.eq_dec j 0) as [->|Hj].
      * exfalso. rewrite Z.add_0_r in Hx. lra.
      * replace (k + j)%Z with ((k + 1) + (j - 1))%Z by lia. apply IH; try lia.
        replace ((k + 1) + (j - 1))%Z with (k + j)%Z by lia. exact Hx.
Qed.

Definition b_of (M : Z) : R := @density_const_b NumR M.
Lemma b_of_expand M : b_of M = IZR 2 * (atan (sqrt (1 + a_of M * a_of M)) * (IZR 180 / PI)).
Proof. reflexivity. Qed.

Lemma b2_bounds : 109 <= b_of 2 /\ b_of 2 < 110.
Proof. rewrite b_of_expand, a_of_expand. split; interval. Qed.

Lemma c2_val : @density_const_c NumR 2 = 120%Z.
Proof.
  unfold density_const_c. change (@density_const_a NumR 2) with (a_of 2). numR.
  apply (round_upto_val 400 0 120); [lia|cbn; lia|]. cbn [Z.add]. rewrite a_of_expand. split; interval.
Qed.

Definition g_third (k : nat) : R :=
  (2 / 90) * ((2 + a_of 2) * sin (edge k * (PI / 180)) - 2 * (1 - cos (edge k * (PI / 180)))).
Definition g_fourth (k : nat) : R := @branch4 NumR 2 (edge k).
Definition g_ortho (k : nat) : R :=
  if (k <=? 90)%nat then g_first 4 k else if (k <=? 109)%nat then g_third k else g_fourth k.

Lemma density_orthorhombic k : (k <= 120)%nat -> @density_edge NumR Orthorhombic (edge k) = Ok (g_ortho k).
Proof.
  intros Hk. unfold density_edge. cbn [lattice_MN]. unfold g_ortho.
  change (@density_const_b NumR 2) with (b_of 2). rewrite c2_val.
  destruct b2_bounds as [B1 B2].
  destruct (Nat.leb_spec k 90) as [H1|H1].
  - pose proof (edge_bounds k 90 H1). rewrite between_true by (numR; cbn in *; lra).
    unfold g_first, deg2rad. numR. reflexivity.
  - pose proof (edge_gt k 90 H1) as G1. cbn in G1.
    rewrite between_false by (numR; right; lra).
    rewrite between_false by (numR; right; lra).
    destruct (Nat.leb_spec k 109) as [H2|H2].
    + pose proof (edge_bounds k 109 H2) as G2. cbn in G2.
      rewrite between_true by (numR; lra).
      unfold g_third, deg2rad, a_of. numR. reflexivity.
    + pose proof (edge_gt k 109 H2) as G2. cbn in G2. pose proof (edge_bounds k 120 Hk) as G3. cbn in G3.
      rewrite between_false by (numR; right; lra).
      rewrite between_true by (numR; lra). reflexivity.
Qed.

Lemma theory_orthorhombic : @theory NumR Orthorhombic = Ok (map (trapz g_ortho) (seq 0 120)).
Proof. apply (theory_form Orthorhombic). intros k Hk. now apply density_orthorhombic. Qed.

(* branch 4: acos expressed through atan (CoqInterval has no acos) *)
Ltac expand_fourth :=
  cbv [g_fourth branch4 deg2rad rad2deg ntan];
  change (@density_const_a NumR 2) with (a_of 2); numR; rewrite ?a_of_expand; edge_num;
  rewrite !acos_atan by interval; unfold Rsqr.

Lemma g_third_nonneg k : (90 < k <= 109)%nat -> 0 <= g_third k.
Proof.
  intros [H1 H2]. pose proof (edge_gt k 90 H1) as G1. pose proof (edge_bounds k 109 H2) as G2. cbn in G1, G2.
  unfold g_third. rewrite a_of_expand. set (e := edge k) in *. interval.
Qed.

Lemma g_fourth_nonneg k : (109 < k <= 119)%nat -> 0 <= g_fourth k.
Proof.
  intros H.
  assert (C: (k = 110 \/ k = 111 \/ k = 112 \/ k = 113 \/ k = 114 \/ k = 115 \/ k = 116 \/ k = 117
             \/ k = 118 \/ k = 119)%nat) by lia.
  repeat (destruct C as [->|C]); try subst k; expand_fourth; interval.
Qed.

(* the density vanishes at the largest angle: the last bin is bounded as a whole *)
Lemma last_bin_nonneg : 0 <= trapz g_ortho 119.
Proof.
  unfold trapz. cbv [g_ortho Nat.leb]. expand_fourth. interval with (i_prec 40).
Qed.

Lemma g_ortho_nonneg k : (k <= 119)%nat -> 0 <= g_ortho k.
Proof.
  intros Hk. unfold g_ortho.
  destruct (Nat.leb_spec k 90); [apply g_first_nonneg; lra|].
  destruct (Nat.leb_spec k 109); [apply g_third_nonneg; lia|apply g_fourth_nonneg; lia].
Qed.

Lemma mass_orthorhombic : Rabs (rsum (map (trapz g_ortho) (seq 0 120)) - 1) <= 1 / 1000.
Proof.
  rewrite rsum_trapz. cbn [seq map rsum fold_right Nat.add].
  cbv [g_ortho Nat.leb g_first g_third]. expand_fourth.
  interval with (i_prec 40).
Qed.

Lemma theory_orthorhombic_nonneg : Forall (Rle 0) (map (trapz g_ortho) (seq 0 120)).
Proof.
  apply Forall_forall. intros x Hx. apply in_map_iff in Hx as (k & <- & Hk). apply in_seq in Hk.
  destruct (Nat.eq_dec k 119) as [->|Hne]; [apply last_bin_nonneg|].
  unfold trapz. pose proof (g_ortho_nonneg k ltac:(lia)). pose proof (g_ortho_nonneg (S k) ltac:(lia)). lra.
Qed.

(* rhombohedral: the density is undefined (assert False) above c = 104 degrees *)
Lemma b3_bounds : b_of 3 < 105.
Proof. rewrite b_of_expand, a_of_expand. interval. Qed.
Lemma c3_val : @density_const_c NumR 3 = 104%Z.
Proof.
  unfold density_const_c. change (@density_const_a NumR 3) with (a_of 3). numR.
  apply (round_upto_val 400 0 104); [lia|cbn; lia|]. cbn [Z.add]. rewrite a_of_expand. split; interval.
Qed.
Lemma density_rhombohedral_105 : @density_edge NumR Rhombohedral (edge 105) = Err AssertionError.
Proof.
  unfold density_edge. cbn [lattice_MN]. change (@density_const_b NumR 3) with (b_of 3). rewrite c3_val.
  pose proof b3_bounds. edge_num.
  rewrite between_false by (numR; right; lra).
  rewrite between_false by (numR; right; lra).
  rewrite between_false by (numR; right; lra).
  rewrite between_false by (numR; right; lra). reflexivity.
Qed.
Lemma collect_err {A} (l : list (res A)) : (exists e, In (Err e) l) -> exists e, collect l = Err e.
Proof.
  intros (e & H). induction l as [|[a|e'] l IH]; [destruct H| |]; cbn [collect].
  - destruct H as [H|H]; [discriminate|]. destruct (IH H) as (e2 & ->). eauto.
  - eauto.
Qed.
Lemma theory_rhombohedral_error : exists e, @theory NumR Rhombohedral = Err e.
Proof.
  unfold theory. apply collect_err.
  assert (X: exists e, @misorientations_random NumR (edge 104) (edge 105) Rhombohedral = Err e).
  { unfold misorientations_random.
    destruct (negb _); [eauto|]. destruct (@density_edge NumR Rhombohedral (edge 104)); [|eauto].
    rewrite density_rhombohedral_105. eauto. }
  destruct X as (e & He). exists e. apply in_map_iff. exists 104%nat. split; [exact He|].
  apply in_seq. cbn. lia.
Qed.

Definition good_mass (s : Lattice) : Prop := s = Triclinic \/ s = Monoclinic \/ s = Orthorhombic.

Theorem theory_mass_partial s : good_mass s ->
  exists th, @theory NumR s = Ok th /\ Forall (Rle 0) th /\ Rabs (rsum th - 1) <= 1 / 1000.
Proof.
  intros [->|[->| ->]].
  - eexists. split; [apply theory_triclinic|]. split; [|apply mass_triclinic].
    apply Forall_trapz_nonneg. intros k. apply g_first_nonneg. lra.
  - eexists. split; [apply theory_monoclinic|]. split; [|apply mass_monoclinic].
    apply Forall_trapz_nonneg_upto. intros k Hk. apply g_two_nonneg; [lra|apply a2_bounds|cbn in Hk; lia].
  - eexists. split; [apply theory_orthorhombic|]. split; [apply theory_orthorhombic_nonneg|apply mass_orthorhombic].
Qed.

Theorem mindex_in_unit_interval s (angs : list R) m : good_mass s ->
  (0 < zsum (@hist_counts NumR (theta_max s) angs))%Z ->
  @mindex_of_angles NumR s angs = Ok m ->
  0 <= m <= 1 + 5 / 10000.
Proof.
  intros Hs Htot Hm. destruct (theory_mass_partial s Hs) as (th & Hth & Hnn & Hmass).
  pose proof (mindex_range s angs th m Hth Hnn Htot Hm) as [A B].
  unfold Rabs in Hmass. destruct (Rcase_abs (rsum th - 1)); lra.
Qed.
