(* Proofs_path3.v -- further capstones along EXACT solutions of the modelled texture ODE:
     C01  det A_g is a first integral in the dislocation regimes (each row rate is w x a_i with ONE spin
          vector w per grain, so d/dt det A = 0 by trilinearity; no orthonormality needed), while
          extract_vars' clip is inactive on grain g (partial, as for the Gram entries);
     C07  a vanishing velocity gradient (whose strain-rate scale is then forced to be 0) leaves EVERY state
          component constant, F block included;
     C05  the strain-rate scale of the k-scaled, time-compressed history is k.sh(k t). *)
From Coq Require Import Reals ZArith List Bool Lra Lia.
From Coquelicot Require Import Coquelicot.
From PV Require Import Num NumR Model_core Model_minerals Proofs_core Proofs_total Proofs_minerals Proofs_rhs Proofs_flow Proofs_path Proofs_path2.
From PV.gen Require Import Gen_core.
Import ListNotations.
Open Scope R_scope.

(* ---- the rate of every grain is  w x a_i  row by row, with one spin vector w ------------------- *)
Definition spin_rows (A Ad : arr R) (w : nat -> R) : Prop :=
  forall i, lt3 i ->
    m3 Ad i 0 = w 1%nat * m3 A i 2 - w 2%nat * m3 A i 1 /\
    m3 Ad i 1 = w 2%nat * m3 A i 0 - w 0%nat * m3 A i 2 /\
    m3 Ad i 2 = w 0%nat * m3 A i 1 - w 1%nat * m3 A i 0.
Definition has_spin (A Ad : arr R) : Prop := exists w, spin_rows A Ad w.

Lemma zeros_has_spin (A : arr R) : has_spin A (mk_arr (0:R) [0;0;0;0;0;0;0;0;0]).
Proof.
  exists (fun _ => 0). intros i Hi. unfold m3, mk_arr.
  assert (H: forall k, nth k [0;0;0;0;0;0;0;0;0] 0 = 0).
  { intros k; do 9 (destruct k; [reflexivity|]); destruct k; reflexivity. }
  rewrite !H. repeat split; ring.
Qed.

Theorem rotation_and_strain_spin (phase fabric : Z) (A D L : arr NumR) (p n lam : R) Ad E :
  k_get_rotation_and_strain phase fabric A D L p n lam = Ok (Ad, E) -> has_spin A Ad.
Proof.
  intros H. unfold k_get_rotation_and_strain in H.
  tree_cases H; inversion H; subst;
    first [ apply zeros_has_spin | eexists; intros i Hi; exact (orientation_change_rows _ _ _ _ i Hi) ].
Qed.

Lemma grains_spin ph fb os (D L : arr NumR) p n lam rs :
  grains ph fb os D L p n lam = Ok rs -> Forall2 has_spin os (map fst rs).
Proof.
  revert rs; induction os as [|o os IH]; intros rs H; cbn [grains] in H.
  - inversion H; constructor.
  - destruct (k_get_rotation_and_strain ph fb o D L p n lam) as [[Ad E]|] eqn:Hk; [|discriminate].
    destruct (grains ph fb os D L p n lam) as [rs'|]; [|discriminate].
    inversion H; subst; cbn [map fst]. constructor; [|apply IH; reflexivity].
    eapply rotation_and_strain_spin; eassumption.
Qed.

Lemma scale9_has_spin c o Ad : has_spin o Ad -> has_spin o (@scale9 NumR c Ad).
Proof.
  intros [w Hw]. exists (fun j => c * w j). intros i Hi.
  destruct (Hw i Hi) as [H0 [H1 H2]]. revert H0 H1 H2. revert Hi. three i;
  cbv [scale9 m3 mk_arr nth Nat.add Nat.mul]; numR; intros H0 H1 H2; rewrite H0, H1, H2; repeat split; ring.
Qed.

(* C03/C01: in both dislocation-type regimes each grain's rate is its orientation rotated by one spin *)
Theorem derivs_spin regime ph fb os fs (D L S : arr NumR) p n lam M phi Ads fds :
  dislocation_regime regime ->
  @derivs NumR regime ph fb os fs D L S p n lam M phi = Ok (Ads, fds) ->
  Forall2 has_spin os Ads.
Proof.
  intros [Hr|Hr] H; subst regime; cbn [derivs Z.eqb Pos.eqb] in H;
  destruct (grains ph fb os D L p n lam) as [rs|] eqn:Hg; try discriminate;
  inversion H; subst; clear H.
  - eapply grains_spin; eassumption.
  - apply grains_spin in Hg. revert Hg. generalize os.
    induction rs as [|r rs IH]; intros os' Hg; inversion Hg; subst; cbn [map]; constructor.
    + apply scale9_has_spin; assumption.
    + apply IH; assumption.
Qed.

(* ---- derivative of a 3x3 determinant; vanishing for spin rates --------------------------------- *)
(* directional derivative of det at F (row-major, 9 entries) in direction G *)
Definition ddet (F G : nat -> R) : R :=
  G 0%nat * (F 4%nat * F 8%nat - F 5%nat * F 7%nat) - G 1%nat * (F 3%nat * F 8%nat - F 5%nat * F 6%nat)
  + G 2%nat * (F 3%nat * F 7%nat - F 4%nat * F 6%nat)
  - G 3%nat * (F 1%nat * F 8%nat - F 2%nat * F 7%nat) + G 4%nat * (F 0%nat * F 8%nat - F 2%nat * F 6%nat)
  - G 5%nat * (F 0%nat * F 7%nat - F 1%nat * F 6%nat)
  + G 6%nat * (F 1%nat * F 5%nat - F 2%nat * F 4%nat) - G 7%nat * (F 0%nat * F 5%nat - F 2%nat * F 3%nat)
  + G 8%nat * (F 0%nat * F 4%nat - F 1%nat * F 3%nat).

Lemma detF_is_derive (F : nat -> R -> R) (G : nat -> R) (t : R) :
  (forall k, (k < 9)%nat -> is_derive (F k) t (G k)) ->
  is_derive (detF F) t (ddet (fun k => F k t) G).
Proof.
  intros HF.
  pose proof (HF 0%nat ltac:(lia)) as H0; pose proof (HF 1%nat ltac:(lia)) as H1;
  pose proof (HF 2%nat ltac:(lia)) as H2; pose proof (HF 3%nat ltac:(lia)) as H3;
  pose proof (HF 4%nat ltac:(lia)) as H4; pose proof (HF 5%nat ltac:(lia)) as H5;
  pose proof (HF 6%nat ltac:(lia)) as H6; pose proof (HF 7%nat ltac:(lia)) as H7;
  pose proof (HF 8%nat ltac:(lia)) as H8.
  unfold detF. auto_derive.
  - repeat split; eexists; eassumption.
  - replace (Derive (fun x : R => F 0%nat x) t) with (G 0%nat) by (symmetry; apply is_derive_unique; exact H0).
    replace (Derive (fun x : R => F 1%nat x) t) with (G 1%nat) by (symmetry; apply is_derive_unique; exact H1).
    replace (Derive (fun x : R => F 2%nat x) t) with (G 2%nat) by (symmetry; apply is_derive_unique; exact H2).
    replace (Derive (fun x : R => F 3%nat x) t) with (G 3%nat) by (symmetry; apply is_derive_unique; exact H3).
    replace (Derive (fun x : R => F 4%nat x) t) with (G 4%nat) by (symmetry; apply is_derive_unique; exact H4).
    replace (Derive (fun x : R => F 5%nat x) t) with (G 5%nat) by (symmetry; apply is_derive_unique; exact H5).
    replace (Derive (fun x : R => F 6%nat x) t) with (G 6%nat) by (symmetry; apply is_derive_unique; exact H6).
    replace (Derive (fun x : R => F 7%nat x) t) with (G 7%nat) by (symmetry; apply is_derive_unique; exact H7).
    replace (Derive (fun x : R => F 8%nat x) t) with (G 8%nat) by (symmetry; apply is_derive_unique; exact H8).
    unfold ddet. ring.
Qed.

(* trilinearity: rows rotating with a common spin (times any factor s) leave the determinant stationary *)
Lemma ddet_spin (o Ad : arr R) (s : R) : has_spin o Ad -> ddet o (fun k => Ad k * s) = 0.
Proof.
  intros [w Hw].
  destruct (Hw 0%nat ltac:(unfold lt3; lia)) as [A0 [A1 A2]].
  destruct (Hw 1%nat ltac:(unfold lt3; lia)) as [A3 [A4 A5]].
  destruct (Hw 2%nat ltac:(unfold lt3; lia)) as [A6 [A7 A8]].
  unfold m3 in *. cbn [Nat.mul Nat.add] in *.
  unfold ddet. rewrite A0, A1, A2, A3, A4, A5, A6, A7, A8. ring.
Qed.

(* determinant of grain g's orientation matrix inside the state vector *)
Definition grain_det (y : nat -> R -> R) (g : nat) (t : R) : R := detF (fun k u => y (9 + 9 * g + k)%nat u) t.

Section Handedness.
  Variables (regime ph fb : Z) (n : nat) (ass : list Z) (frs : list R) (Sd : list R) (p nn lam M : R).
  Local Notation vfm := (vf regime ph fb n ass frs Sd p nn lam M).

  (* grain g's block of the vector field at a state on which the clip is inactive for that grain: either it
     vanishes, or it is s times the kernel's rate for the (unclipped) grain *)
  Lemma vf_grain_cases (L : list R) (s : R) (y : nat -> R) g :
    (g < n)%nat -> (forall k, (k < 9)%nat -> -1 <= y (9 + 9 * g + k)%nat <= 1) ->
    (forall k, (k < 9)%nat -> vfm L s y (9 + 9 * g + k)%nat = 0) \/
    (exists phi Ads fds,
       @derivs NumR regime ph fb (os_of n y) (fs_of n y)
               (@aol' NumR (map (fun x => x / s) (@sym9 NumR L))) (@aol' NumR (map (fun x => x / s) L))
               (@aol' NumR Sd) p nn lam M phi = Ok (Ads, fds) /\
       (forall k, (k < 9)%nat -> y (9 + 9 * g + k)%nat = nth g (os_of n y) (@zeros9 NumR) k) /\
       (forall k, (k < 9)%nat -> vfm L s y (9 + 9 * g + k)%nat = nth g Ads (@zeros9 NumR) k * s)).
  Proof.
    intros Hg Hclip.
    destruct (vf_cases regime ph fb n ass frs Sd p nn lam M L s y) as [Hz | [Hs [phi [Ads [fds [Hl [Hd Hv]]]]]]].
    - left. intros k Hk. apply Hz. lia.
    - right. exists phi, Ads, fds. split; [exact Hd|].
      destruct (derivs_lengths regime ph fb p nn lam M _ _ _ _ _ _ _ _
                  (eq_trans (fs_of_length n y) (eq_sym (os_of_length n y))) Hd) as [HlA _].
      rewrite os_of_length in HlA.
      split.
      + intros k Hk. rewrite os_of_entry by assumption. symmetry. apply clip11_id. apply Hclip. exact Hk.
      + intros k Hk. rewrite Hv.
        rewrite nth_orient; [|reflexivity|rewrite map_length, flat9_length; change (T NumR) with R in *; nia].
        rewrite (nth_map_in (fun x => x * s) _ _ 0 0) by (rewrite flat9_length; change (T NumR) with R in *; nia).
        rewrite (flat9_nth Ads (@zeros9 NumR)) by (try exact Hk; change (T NumR) with R in *; lia).
        reflexivity.
  Qed.

  (* pointwise: the rate of det A_g under the vector field vanishes *)
  Lemma vf_det_rate (L : list R) (s : R) (y : nat -> R) g :
    dislocation_regime regime -> (g < n)%nat ->
    (forall k, (k < 9)%nat -> -1 <= y (9 + 9 * g + k)%nat <= 1) ->
    ddet (fun k => y (9 + 9 * g + k)%nat) (fun k => vfm L s y (9 + 9 * g + k)%nat) = 0.
  Proof.
    intros Hreg Hg Hclip.
    destruct (vf_grain_cases L s y g Hg Hclip) as [Hz | [phi [Ads [fds [Hd [HA HAd]]]]]].
    - unfold ddet. rewrite !Hz by lia. ring.
    - pose proof (derivs_spin _ _ _ _ _ _ _ _ _ _ _ _ _ _ _ Hreg Hd) as Hsp.
      assert (Hog : has_spin (nth g (os_of n y) (@zeros9 NumR)) (nth g Ads (@zeros9 NumR))).
      { apply Forall2_nth; [exact Hsp|]. rewrite os_of_length. exact Hg. }
      rewrite <- (ddet_spin _ _ s Hog).
      unfold ddet. rewrite !HA, !HAd by lia. reflexivity.
  Qed.

  Variable Lh : R -> list R.
  Variable sh : R -> R.
  Local Notation fm := (f regime ph fb n ass frs Sd p nn lam M Lh sh).

  (* det A_g is constant along an exact solution while grain g's entries stay in [-1,1] (PARTIAL: see
     solution_gram_constant) *)
  Theorem solution_det_constant (y : nat -> R -> R) (a b : R) g :
    dislocation_regime regime -> a <= b -> (g < n)%nat ->
    (forall i t, a <= t <= b -> is_derive (y i) t (fm t (fun j => y j t) i)) ->
    (forall k t, (k < 9)%nat -> a <= t <= b -> -1 <= y (9 + 9 * g + k)%nat t <= 1) ->
    grain_det y g b = grain_det y g a.
  Proof.
    intros Hreg Hab Hg Hsol Hclip.
    apply zero_derivative_constant; [exact Hab|]. intros t Ht.
    rewrite <- (vf_det_rate (Lh t) (sh t) (fun j => y j t) g Hreg Hg (fun k Hk => Hclip k t Hk Ht)).
    unfold grain_det.
    apply (detF_is_derive (fun k u => y (9 + 9 * g + k)%nat u)
             (fun k => vfm (Lh t) (sh t) (fun j => y j t) (9 + 9 * g + k)%nat) t).
    intros k _. apply (Hsol (9 + 9 * g + k)%nat t Ht).
  Qed.

  (* proper rotation at a  =>  proper rotation at b *)
  Theorem solution_stays_rotation (y : nat -> R -> R) (a b : R) g :
    dislocation_regime regime -> a <= b -> (g < n)%nat ->
    (forall i t, a <= t <= b -> is_derive (y i) t (fm t (fun j => y j t) i)) ->
    (forall k t, (k < 9)%nat -> a <= t <= b -> -1 <= y (9 + 9 * g + k)%nat t <= 1) ->
    (forall r r', (r < 3)%nat -> (r' < 3)%nat -> gram (grainA y g) r r' a = if Nat.eqb r r' then 1 else 0) ->
    grain_det y g a = 1 ->
    (forall r r', (r < 3)%nat -> (r' < 3)%nat -> gram (grainA y g) r r' b = if Nat.eqb r r' then 1 else 0)
    /\ grain_det y g b = 1.
  Proof.
    intros Hreg Hab Hg Hsol Hclip Ha Hd. split.
    - exact (solution_keeps_orthonormal regime ph fb n ass frs Sd p nn lam M Lh sh y a b g Hreg Hab Hg Hsol Hclip Ha).
    - rewrite (solution_det_constant y a b g Hreg Hab Hg Hsol Hclip). exact Hd.
  Qed.
End Handedness.

(* ---- C07: a vanishing velocity gradient ------------------------------------------------------- *)
(* the strain-rate scale of the zero velocity gradient is 0: no freedom is left to the eigenvalue oracle *)
Lemma eigmax_zero (m : R) : is_eigmax (@sym9 NumR (repeat 0 9)) m -> m = 0.
Proof.
  intros [_ [v [_ Hm]]]. rewrite <- Hm. destruct v as [[x y0] z].
  unfold quad, sym9, aol', mk_arr. cbn [repeat nth Nat.mul Nat.add]. numR.
  replace (_ + _ + _) with 0 by (unfold Rdiv; ring). apply Rabs_R0.
Qed.

Lemma eigmax_zero_exists : is_eigmax (@sym9 NumR (repeat 0 9)) 0.
Proof.
  assert (Hq : forall v, quad (@sym9 NumR (repeat 0 9)) v = 0).
  { intros [[x y0] z]. unfold quad, sym9, aol', mk_arr. cbn [repeat nth Nat.mul Nat.add]. numR. unfold Rdiv; ring. }
  split.
  - intros v _. rewrite Hq, Rabs_R0. lra.
  - exists (1, 0, 0). split; [unfold unit3; ring|]. rewrite Hq. apply Rabs_R0.
Qed.

Theorem zero_velocity_gradient_state_constant
        regime ph fb n ass frs Sd p nn lam M (Lh : R -> list R) (sh : R -> R) (y : nat -> R -> R) (a b : R) :
  a <= b ->
  (forall t, a <= t <= b -> Lh t = repeat 0 9) ->
  (forall t, a <= t <= b -> is_eigmax (@sym9 NumR (Lh t)) (sh t)) ->
  (forall i t, a <= t <= b -> is_derive (y i) t (f regime ph fb n ass frs Sd p nn lam M Lh sh t (fun j => y j t) i)) ->
  forall i, y i b = y i a.
Proof.
  intros Hab HL Hs Hsol i. apply zero_derivative_constant; [exact Hab|]. intros t Ht.
  pose proof (Hsol i t Ht) as Hd. unfold f in Hd.
  pose proof (Hs t Ht) as He. rewrite (HL t Ht) in He, Hd. rewrite (eigmax_zero _ He) in Hd.
  rewrite vf_zero_L in Hd. exact Hd.
Qed.

(* ---- C05: the strain-rate scale of the scaled history ----------------------------------------- *)
Lemma sym9_scale (L : list R) k : length L = 9%nat ->
  @sym9 NumR (map (Rmult k) L) = map (Rmult k) (@sym9 NumR L).
Proof.
  intros HL. destruct (list9 L HL) as [a0 [a1 [a2 [a3 [a4 [a5 [a6 [a7 [a8 ->]]]]]]]]].
  unfold sym9, aol', mk_arr. cbn [map nth Nat.mul Nat.add]. numR.
  repeat (apply (f_equal2 cons); [unfold Rdiv; ring|]). reflexivity.
Qed.

(* if sh is the strain-rate scale of the history Lh, then k.sh(k t) is the strain-rate scale of the history
   k.Lh(k t): exactly the scale f_scaled (C05_strain_path_not_rate) uses, so nothing is supplied by hand *)
Theorem scaled_history_scale (Lh : R -> list R) (sh : R -> R) (k : R) :
  0 < k -> (forall t, length (Lh t) = 9%nat) ->
  (forall t, is_eigmax (@sym9 NumR (Lh t)) (sh t)) ->
  forall t, is_eigmax (@sym9 NumR (map (Rmult k) (Lh (k * t)))) (k * sh (k * t)).
Proof.
  intros Hk HL Hs t. rewrite sym9_scale by apply HL.
  apply eigmax_homogeneous; [reflexivity|exact Hk|apply Hs].
Qed.

(* ---- non-vacuity ------------------------------------------------------------------------------- *)
Lemma handedness_nonvacuous_proof :
  let y := fun (i : nat) (_ : R) => y0_example i in
  grain_det y 0 0 = 1 /\ grain_det y 1 0 = 1.
Proof.
  cbv zeta. unfold grain_det, detF, y0_example. cbn [Nat.add Nat.mul nth]. split; ring.
Qed.

Lemma zero_gradient_nonvacuous_proof :
  is_eigmax (@sym9 NumR (repeat 0 9)) 0 /\
  (forall (y0 : nat -> R) i t, is_derive (fun _ : R => y0 i) t
     (f 4 0 0 2 [0%Z] [1] [] 1.5 3.5 30 125 (fun _ => repeat 0 9) (fun _ => 0) t (fun j => y0 j) i)).
Proof.
  split; [exact eigmax_zero_exists|]. intros y0 i t. apply constant_state_is_solution.
Qed.

Lemma scaled_history_nonvacuous_proof :
  length shear_L = 9%nat /\ is_eigmax (@sym9 NumR shear_L) 1.
Proof.
  split; [reflexivity|].
  assert (Hq : forall x y0 z, quad (@sym9 NumR shear_L) (x, y0, z) = x * x - y0 * y0).
  { intros x y0 z. unfold quad, sym9, shear_L, aol', mk_arr. cbn [nth Nat.mul Nat.add]. numR. field. }
  split.
  - intros [[x y0] z] Hu. rewrite Hq. unfold unit3 in Hu. apply Rabs_le. nra.
  - exists (1, 0, 0). split; [unfold unit3; ring|]. rewrite Hq.
    replace (1 * 1 - 0 * 0) with 1 by ring. apply Rabs_R1.
Qed.
