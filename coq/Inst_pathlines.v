(* Inst_pathlines.v -- kernel-checked instance lemmas for pydrex.pathlines (tie T of C18).

   coq/gen/Gen_pathlines.v is regenerated from the current source on every run by
   translator/specs_pathlines.py: _is_inside, _ivp_func, _ivp_jac (the user callables are oracle
   function parameters), one call of the terminal-event closure of get_pathline as a function of its
   two `nonlocal` variables, the request get_pathline hands to scipy.integrate.solve_ivp (captured
   from the real call with solve_ivp replaced by a recording stand-in), and the time stamps it
   returns for a symbolic path.t.  The lemmas below state that each generated fixed-size definition
   coincides with the hand-written list model of Model_pathlines.v, for ALL inputs of the right
   length (points of dimension 1, 2, 3; solver outputs of 1, 2, 3 time stamps; regular_steps None,
   0, 1, 2, 3).  An edit of pathlines.py changes Gen_pathlines.v and one of these proofs stops
   compiling.

   Arrays of the generated code are `A l = mk_arr 0 l` for the model's list l; the model's callables
   work on lists, the generated code applies `lift_v n f` / `lift_g n f` (the same callable reading
   its point from an array). *)
From Coq Require Import Reals ZArith List Bool Lra Lia.
From PV Require Import Num NumR Model_pathlines Proofs_pathlines.
From PV.gen Require Import Gen_velocity_utils Gen_pathlines.
Import ListNotations.
Open Scope R_scope.

Notation RL := (list R).
Notation A := (@mk_arr R 0).

Definition b2r (b : bool) : R := if b then 1 else 0.
Definition res_map {X Y} (f : X -> Y) (r : res X) : res Y :=
  match r with Ok x => Ok (f x) | Err e => Err e end.

(* a user callable of the model (point as a list) as the generated code applies it *)
Definition lift_v (n : nat) (f : RL -> res RL) : arr R -> res (arr R) :=
  fun a => res_map A (f (arr_to_list n a)).
Definition lift_g (n : nat) (f : RL -> res (arr R)) : arr R -> res (arr R) :=
  fun a => f (arr_to_list n a).

Lemma cons_eq {X} (a b : X) l1 l2 : a = b -> l1 = l2 -> a :: l1 = b :: l2.
Proof. intros -> ->; reflexivity. Qed.
Lemma arr_eq (l l' : RL) : l = l' -> A l = A l'.
Proof. intros ->; reflexivity. Qed.

(* a list of known length is a list literal *)
Ltac explode l H :=
  repeat (destruct l as [|? l]; [ cbn in H; discriminate H | ]);
  destruct l; [ clear H | cbn in H; discriminate H ].
Ltac list_eq tac := repeat (apply cons_eq; [ tac | ]); try reflexivity.

(* case analysis on every real comparison of the goal *)
Ltac cmp_cases :=
  repeat match goal with
  | |- context [Rltb ?a ?b] => destruct (Rltb a b) eqn:?
  end; cbn [andb orb negb]; try reflexivity.

(* ================= _is_inside ================= *)
Ltac inside_tac :=
  cbv [is_inside length Nat.eqb andb negb any2 res_map b2r mk_arr nth]; numR; cmp_cases.

Lemma is_inside_inst_1 (pt mn mx : RL) : length pt = 1%nat -> length mn = 1%nat -> length mx = 1%nat ->
  res_map b2r (@is_inside NumR pt mn mx) = Ok (@k_is_inside_n1 NumR (A pt) (A mn) (A mx)).
Proof. intros H1 H2 H3. explode pt H1. explode mn H2. explode mx H3. unfold k_is_inside_n1. inside_tac. Qed.
Lemma is_inside_inst_2 (pt mn mx : RL) : length pt = 2%nat -> length mn = 2%nat -> length mx = 2%nat ->
  res_map b2r (@is_inside NumR pt mn mx) = Ok (@k_is_inside_n2 NumR (A pt) (A mn) (A mx)).
Proof. intros H1 H2 H3. explode pt H1. explode mn H2. explode mx H3. unfold k_is_inside_n2. inside_tac. Qed.
Lemma is_inside_inst_3 (pt mn mx : RL) : length pt = 3%nat -> length mn = 3%nat -> length mx = 3%nat ->
  res_map b2r (@is_inside NumR pt mn mx) = Ok (@k_is_inside_n3 NumR (A pt) (A mn) (A mx)).
Proof. intros H1 H2 H3. explode pt H1. explode mn H2. explode mx H3. unfold k_is_inside_n3. inside_tac. Qed.

(* sizes that differ: the assertion of the source fires whatever the values are *)
Lemma is_inside_inst_3_3_2 (pt mn mx : RL) : length pt = 3%nat -> length mn = 3%nat -> length mx = 2%nat ->
  res_map b2r (@is_inside NumR pt mn mx) = @k_is_inside_n3_3_2 NumR (A pt) (A mn) (A mx).
Proof. intros H1 H2 H3. unfold is_inside. change (T NumR) with R. rewrite H1, H2, H3. reflexivity. Qed.
Lemma is_inside_inst_3_2_3 (pt mn mx : RL) : length pt = 3%nat -> length mn = 2%nat -> length mx = 3%nat ->
  res_map b2r (@is_inside NumR pt mn mx) = @k_is_inside_n3_2_3 NumR (A pt) (A mn) (A mx).
Proof. intros H1 H2 H3. unfold is_inside. change (T NumR) with R. rewrite H1, H2, H3. reflexivity. Qed.
Lemma is_inside_inst_2_3_3 (pt mn mx : RL) : length pt = 2%nat -> length mn = 3%nat -> length mx = 3%nat ->
  res_map b2r (@is_inside NumR pt mn mx) = @k_is_inside_n2_3_3 NumR (A pt) (A mn) (A mx).
Proof. intros H1 H2 H3. unfold is_inside. change (T NumR) with R. rewrite H1, H2, H3. reflexivity. Qed.

(* what the callers of the generated kernel branch on *)
Lemma b2r_eqb (b : bool) : Reqb (b2r b) 0 = negb b.
Proof. destruct b; unfold b2r; destruct (Reqb _ 0) eqn:E; bool2prop; try reflexivity; lra. Qed.

(* ================= _ivp_func / _ivp_jac / the terminal event ================= *)
(* rewrite the call of the generated k_is_inside by the model's verdict `b`, then both sides are the
   same case analysis on b *)
Ltac callers_tac inst pt mn mx H1 H2 H3 :=
  let b := fresh "b" in let E := fresh "E" in let Hi := fresh "Hi" in
  pose proof (inst pt mn mx H1 H2 H3) as Hi;
  destruct (@is_inside NumR pt mn mx) as [b|?] eqn:E; cbn [res_map] in Hi; [|discriminate Hi];
  injection Hi as Hi; rewrite <- Hi; cbv zeta;
  change (@neqb NumR (b2r b) (@nzero NumR)) with (Reqb (b2r b) 0); rewrite b2r_eqb;
  explode pt H1; destruct b; cbn [negb].

Lemma ivp_func_inst_1 (t : R) (gv : RL -> res RL) gg (pt mn mx : RL) :
  length pt = 1%nat -> length mn = 1%nat -> length mx = 1%nat ->
  @k_ivp_func_n1 NumR t (A pt) (lift_v 1 gv) gg (A mn) (A mx) = res_map A (@ivp_func NumR gv mn mx pt).
Proof.
  intros H1 H2 H3. unfold k_ivp_func_n1, ivp_func. callers_tac is_inside_inst_1 pt mn mx H1 H2 H3.
  - unfold lift_v. cbn [arr_to_list seq map mk_arr nth]. destruct (gv _); reflexivity.
  - reflexivity.
Qed.
Lemma ivp_func_inst_2 (t : R) (gv : RL -> res RL) gg (pt mn mx : RL) :
  length pt = 2%nat -> length mn = 2%nat -> length mx = 2%nat ->
  @k_ivp_func_n2 NumR t (A pt) (lift_v 2 gv) gg (A mn) (A mx) = res_map A (@ivp_func NumR gv mn mx pt).
Proof.
  intros H1 H2 H3. unfold k_ivp_func_n2, ivp_func. callers_tac is_inside_inst_2 pt mn mx H1 H2 H3.
  - unfold lift_v. cbn [arr_to_list seq map mk_arr nth]. destruct (gv _); reflexivity.
  - reflexivity.
Qed.
Lemma ivp_func_inst_3 (t : R) (gv : RL -> res RL) gg (pt mn mx : RL) :
  length pt = 3%nat -> length mn = 3%nat -> length mx = 3%nat ->
  @k_ivp_func_n3 NumR t (A pt) (lift_v 3 gv) gg (A mn) (A mx) = res_map A (@ivp_func NumR gv mn mx pt).
Proof.
  intros H1 H2 H3. unfold k_ivp_func_n3, ivp_func. callers_tac is_inside_inst_3 pt mn mx H1 H2 H3.
  - unfold lift_v. cbn [arr_to_list seq map mk_arr nth]. destruct (gv _); reflexivity.
  - reflexivity.
Qed.

Lemma ivp_jac_inst_1 (t : R) gv (gg : RL -> res (arr R)) (pt mn mx : RL) :
  length pt = 1%nat -> length mn = 1%nat -> length mx = 1%nat ->
  @k_ivp_jac_n1 NumR t (A pt) gv (lift_g 1 gg) (A mn) (A mx) = @ivp_jac NumR gg mn mx pt.
Proof.
  intros H1 H2 H3. unfold k_ivp_jac_n1, ivp_jac. callers_tac is_inside_inst_1 pt mn mx H1 H2 H3.
  - unfold lift_g. cbn [arr_to_list seq map mk_arr nth]. destruct (gg _); reflexivity.
  - reflexivity.
Qed.
Lemma ivp_jac_inst_2 (t : R) gv (gg : RL -> res (arr R)) (pt mn mx : RL) :
  length pt = 2%nat -> length mn = 2%nat -> length mx = 2%nat ->
  @k_ivp_jac_n2 NumR t (A pt) gv (lift_g 2 gg) (A mn) (A mx) = @ivp_jac NumR gg mn mx pt.
Proof.
  intros H1 H2 H3. unfold k_ivp_jac_n2, ivp_jac. callers_tac is_inside_inst_2 pt mn mx H1 H2 H3.
  - unfold lift_g. cbn [arr_to_list seq map mk_arr nth]. destruct (gg _); reflexivity.
  - reflexivity.
Qed.
Lemma ivp_jac_inst_3 (t : R) gv (gg : RL -> res (arr R)) (pt mn mx : RL) :
  length pt = 3%nat -> length mn = 3%nat -> length mx = 3%nat ->
  @k_ivp_jac_n3 NumR t (A pt) gv (lift_g 3 gg) (A mn) (A mx) = @ivp_jac NumR gg mn mx pt.
Proof.
  intros H1 H2 H3. unfold k_ivp_jac_n3, ivp_jac. callers_tac is_inside_inst_3 pt mn mx H1 H2 H3.
  - unfold lift_g. cbn [arr_to_list seq map mk_arr nth]. destruct (gg _); reflexivity.
  - reflexivity.
Qed.

(* one call of the event closure = one step of the state machine of Model_pathlines *)
Definition ev_out (r : @ev_state NumR * R) : R * R * R := (t_prev (fst r), strain (fst r), snd r).

Lemma terminate_inst_3 (tp s t : R) gv (gg : RL -> res (arr R)) (eig : arr R -> R) (pt mn mx : RL) :
  length pt = 3%nat -> length mn = 3%nat -> length mx = 3%nat ->
  @k_terminate_n3 NumR tp s t (A pt) gv (lift_g 3 gg) eig (A mn) (A mx)
  = res_map ev_out (@ev_step NumR gg eig mn mx (@mk_ev NumR tp s) (t, pt)).
Proof.
  intros H1 H2 H3. unfold k_terminate_n3, ev_step. callers_tac is_inside_inst_3 pt mn mx H1 H2 H3.
  - unfold lift_g. cbn [arr_to_list seq map mk_arr nth]. destruct (gg _) as [L|e]; [|reflexivity].
    cbv zeta. cbn [t_prev strain]. change (@nltb NumR tp t) with (Rltb tp t).
    destruct (Rltb tp t); reflexivity.
  - reflexivity.
Qed.

(* a whole history of calls of the generated closure (its state threaded through) is ev_run *)
Fixpoint gen_event_run gv (gg : arr R -> res (arr R)) (eig : arr R -> R) (mn mx : arr R) (tp s : R)
         (calls : list (R * RL)) : res (R * R * list R) :=
  match calls with
  | [] => Ok (tp, s, [])
  | (t, pt) :: cs =>
      match @k_terminate_n3 NumR tp s t (A pt) gv gg eig mn mx with
      | Err e => Err e
      | Ok (tp', s', v) =>
          match gen_event_run gv gg eig mn mx tp' s' cs with
          | Err e => Err e
          | Ok (a, b, vs) => Ok (a, b, v :: vs)
          end
      end
  end.

Definition run_out (r : @ev_state NumR * list R) : R * R * list R := (t_prev (fst r), strain (fst r), snd r).

Lemma gen_event_run_inst gv (gg : RL -> res (arr R)) (eig : arr R -> R) (mn mx : RL) (calls : list (R * RL)) :
  length mn = 3%nat -> length mx = 3%nat -> Forall (fun c => length (snd c) = 3%nat) calls ->
  forall tp s,
  gen_event_run gv (lift_g 3 gg) eig (A mn) (A mx) tp s calls
  = res_map run_out (@ev_run NumR gg eig mn mx (@mk_ev NumR tp s) calls).
Proof.
  intros H2 H3 HF. induction HF as [|[t pt] cs Hc HF IH]; intros tp s; [reflexivity|].
  cbn [gen_event_run ev_run]. cbn [snd] in Hc.
  rewrite (terminate_inst_3 tp s t gv gg eig pt mn mx Hc H2 H3).
  destruct (@ev_step NumR gg eig mn mx (@mk_ev NumR tp s) (t, pt)) as [[st v]|e]; [|reflexivity].
  cbn [res_map ev_out fst snd]. destruct st as [tp' s']. cbn [t_prev strain]. rewrite IH.
  destruct (@ev_run NumR gg eig mn mx (@mk_ev NumR tp' s') cs) as [[st' vs]|e]; reflexivity.
Qed.

(* ================= the request handed to solve_ivp ================= *)
Ltac request_tac :=
  cbv [request_default request_kw solver_request app t_forever default_atol default_rtol]; numR; reflexivity.

Lemma request_inst_1 (fl mn mx : RL) (ms : R) : length fl = 1%nat ->
  @k_request_n1 NumR (A fl) (A mn) (A mx) ms = A (@request_default NumR fl ms).
Proof. intros H. explode fl H. unfold k_request_n1. request_tac. Qed.
Lemma request_inst_2 (fl mn mx : RL) (ms : R) : length fl = 2%nat ->
  @k_request_n2 NumR (A fl) (A mn) (A mx) ms = A (@request_default NumR fl ms).
Proof. intros H. explode fl H. unfold k_request_n2. request_tac. Qed.
Lemma request_inst_3 (fl mn mx : RL) (ms : R) : length fl = 3%nat ->
  @k_request_n3 NumR (A fl) (A mn) (A mx) ms = A (@request_default NumR fl ms).
Proof. intros H. explode fl H. unfold k_request_n3. request_tac. Qed.

Lemma request_kw_inst_1 (fl mn mx : RL) (ms atol rtol fs mxs : R) : length fl = 1%nat ->
  @k_request_kw_n1 NumR (A fl) (A mn) (A mx) ms atol rtol fs mxs = A (@request_kw NumR fl ms atol rtol fs mxs).
Proof. intros H. explode fl H. unfold k_request_kw_n1. request_tac. Qed.
Lemma request_kw_inst_2 (fl mn mx : RL) (ms atol rtol fs mxs : R) : length fl = 2%nat ->
  @k_request_kw_n2 NumR (A fl) (A mn) (A mx) ms atol rtol fs mxs = A (@request_kw NumR fl ms atol rtol fs mxs).
Proof. intros H. explode fl H. unfold k_request_kw_n2. request_tac. Qed.
Lemma request_kw_inst_3 (fl mn mx : RL) (ms atol rtol fs mxs : R) : length fl = 3%nat ->
  @k_request_kw_n3 NumR (A fl) (A mn) (A mx) ms atol rtol fs mxs = A (@request_kw NumR fl ms atol rtol fs mxs).
Proof. intros H. explode fl H. unfold k_request_kw_n3. request_tac. Qed.

(* ================= post-processing: the returned time stamps ================= *)
Ltac post_elem := cbv [mk_arr nth]; first [ reflexivity | (numR; field) | (numR; ring) ].
Ltac post_tac :=
  cbv [timestamps linspace rev app last hd seq map ofnat_p Z.of_nat Pos.of_succ_nat Pos.succ];
  apply arr_eq; list_eq post_elem.

Lemma post_inst_m1_none (ts : RL) : length ts = 1%nat -> @k_post_m1_none NumR (A ts) = A (@timestamps NumR ts None).
Proof. intros H. explode ts H. reflexivity. Qed.
Lemma post_inst_m2_none (ts : RL) : length ts = 2%nat -> @k_post_m2_none NumR (A ts) = A (@timestamps NumR ts None).
Proof. intros H. explode ts H. unfold k_post_m2_none. post_tac. Qed.
Lemma post_inst_m3_none (ts : RL) : length ts = 3%nat -> @k_post_m3_none NumR (A ts) = A (@timestamps NumR ts None).
Proof. intros H. explode ts H. unfold k_post_m3_none. post_tac. Qed.

Lemma post_inst_m1_s0 (ts : RL) : length ts = 1%nat -> @k_post_m1_s0 NumR (A ts) = A (@timestamps NumR ts (Some 0%nat)).
Proof. intros H. explode ts H. reflexivity. Qed.
Lemma post_inst_m2_s0 (ts : RL) : length ts = 2%nat -> @k_post_m2_s0 NumR (A ts) = A (@timestamps NumR ts (Some 0%nat)).
Proof. intros H. explode ts H. unfold k_post_m2_s0. post_tac. Qed.
Lemma post_inst_m3_s0 (ts : RL) : length ts = 3%nat -> @k_post_m3_s0 NumR (A ts) = A (@timestamps NumR ts (Some 0%nat)).
Proof. intros H. explode ts H. unfold k_post_m3_s0. post_tac. Qed.

Lemma post_inst_m1_s1 (ts : RL) : length ts = 1%nat -> @k_post_m1_s1 NumR (A ts) = A (@timestamps NumR ts (Some 1%nat)).
Proof. intros H. explode ts H. unfold k_post_m1_s1. post_tac. Qed.
Lemma post_inst_m2_s1 (ts : RL) : length ts = 2%nat -> @k_post_m2_s1 NumR (A ts) = A (@timestamps NumR ts (Some 1%nat)).
Proof. intros H. explode ts H. unfold k_post_m2_s1. post_tac. Qed.
Lemma post_inst_m3_s1 (ts : RL) : length ts = 3%nat -> @k_post_m3_s1 NumR (A ts) = A (@timestamps NumR ts (Some 1%nat)).
Proof. intros H. explode ts H. unfold k_post_m3_s1. post_tac. Qed.

Lemma post_inst_m1_s2 (ts : RL) : length ts = 1%nat -> @k_post_m1_s2 NumR (A ts) = A (@timestamps NumR ts (Some 2%nat)).
Proof. intros H. explode ts H. unfold k_post_m1_s2. post_tac. Qed.
Lemma post_inst_m2_s2 (ts : RL) : length ts = 2%nat -> @k_post_m2_s2 NumR (A ts) = A (@timestamps NumR ts (Some 2%nat)).
Proof. intros H. explode ts H. unfold k_post_m2_s2. post_tac. Qed.
Lemma post_inst_m3_s2 (ts : RL) : length ts = 3%nat -> @k_post_m3_s2 NumR (A ts) = A (@timestamps NumR ts (Some 2%nat)).
Proof. intros H. explode ts H. unfold k_post_m3_s2. post_tac. Qed.

Lemma post_inst_m1_s3 (ts : RL) : length ts = 1%nat -> @k_post_m1_s3 NumR (A ts) = A (@timestamps NumR ts (Some 3%nat)).
Proof. intros H. explode ts H. unfold k_post_m1_s3. post_tac. Qed.
Lemma post_inst_m2_s3 (ts : RL) : length ts = 2%nat -> @k_post_m2_s3 NumR (A ts) = A (@timestamps NumR ts (Some 3%nat)).
Proof. intros H. explode ts H. unfold k_post_m2_s3. post_tac. Qed.
Lemma post_inst_m3_s3 (ts : RL) : length ts = 3%nat -> @k_post_m3_s3 NumR (A ts) = A (@timestamps NumR ts (Some 3%nat)).
Proof. intros H. explode ts H. unfold k_post_m3_s3. post_tac. Qed.
