(* Inst_config.v -- the functions of pydrex.io's configuration parser as regenerated from the source by
   translator/specs_ioconfig.py (gen/Gen_io_config.v, over the Python-subset semantics of Model_pyconfig.v)
   ARE the hand-written model functions of Model_config.v, wherever the model is defined (group `config`, C19).

   Every theorem of Proofs_config.v about `parse_phase`, `parse_params`, `parse_input_common`,
   `output_options` is thereby a theorem about the code as it is on this run: an edit of those source lines
   (order of the checks, a key, a default, a comparison, which exceptions an `except` clause turns into
   ConfigError) changes the generated definitions and these equalities stop compiling.

   The proofs do not mention generated variable names. *)
From Coq Require Import Floats ZArith String List Bool Lia.
From PV.gen Require Import Gen_tables_params Gen_io_config.
From PV Require Import Model_config Model_pyconfig Proofs_config.
Import ListNotations.
Open Scope string_scope.

Definition cmap {A B} (f : A -> B) (r : cres A) : cres B :=
  match r with COk a => COk (f a) | CErr e => CErr e end.

Definition defined {A} (r : cres A) : Prop := r <> CErr Unmodelled.

(* ------------------------------------------------------------------ _parse_phase *)
Lemma members_phase : members_of "MineralPhase" = phase_members. Proof. reflexivity. Qed.
Lemma members_fabric : members_of "MineralFabric" = fabric_members. Proof. reflexivity. Qed.

Theorem inst_parse_phase : forall v, defined (parse_phase v_fixed v) -> gen__parse_phase v = parse_phase v_fixed v.
Proof.
  intros v D. unfold gen__parse_phase, cret, craise. unfold defined in D.
  destruct v as [z|f|s|b| |l|l|t|cls n z|s|tag args]; cbn [cbind py_isinstance existsb isinst1 orb];
    try reflexivity.
  - (* int *)
    cbn [py_enum_call parse_phase]. rewrite members_phase. unfold phase_of_int. cbn [v_int_phase v_fixed].
    destruct (member_of_val z phase_members); reflexivity.
  - (* str *)
    cbn [py_enum_item parse_phase]. rewrite members_phase. unfold phase_of_name. cbn [v_getattr v_fixed andb].
    destruct (get_member s phase_members); reflexivity.
  - (* bool *)
    cbn [py_enum_call parse_phase]. rewrite members_phase. unfold phase_of_int. cbn [v_int_phase v_fixed].
    destruct (member_of_val (if b then 1 else 0)%Z phase_members); reflexivity.
  - (* enumeration member *)
    cbn [parse_phase] in *. destruct (String.eqb cls "MineralPhase") eqn:E; cbn [orb].
    + destruct (get_member n phase_members) as [z'|]; [|elim D; reflexivity].
      destruct (Z.eqb z z'); [reflexivity|elim D; reflexivity].
    + cbn [py_enum_call]. rewrite members_phase. unfold phase_of_int. cbn [v_int_phase v_fixed].
      destruct (member_of_val z phase_members); reflexivity.
Qed.

(* ------------------------------------------------------------------ facts about the generated tables (by computation) *)
Lemma defaults_nonempty : exists k v r, defaults_asdict = (k, v) :: r.
Proof. vm_compute. eauto. Qed.
Lemma defaults_keys : mem "phase_fractions" defaults_asdict = true /\ mem "phase_assemblage" defaults_asdict = true /\
  mem "initial_olivine_fabric" defaults_asdict = true /\ mem "disl_coefficients" defaults_asdict = true.
Proof. repeat split; vm_compute; reflexivity. Qed.
Lemma n_required_len : py_len (getd "disl_coefficients" (pc_instance default_params) VNone) = COk (VInt (Z.of_nat n_coefficients)).
Proof. vm_compute. reflexivity. Qed.
Lemma n_required_len' : (do n <- len_of (getd "disl_coefficients" (pc_instance default_params) VNone); COk (VInt (Z.of_nat n)))
  = COk (VInt (Z.of_nat n_coefficients)).
Proof. vm_compute. reflexivity. Qed.
Lemma tolerance_literals : sum_target = 0x1.0000000000000p+0%float /\ sum_tolerance = 0x1.cd2b297d889bcp-54%float.
Proof. split; reflexivity. Qed.
Lemma input_defaults_literals : input_default "timestep" = VFloat nan /\ input_default "strain_final" = VFloat infinity.
Proof. split; vm_compute; reflexivity. Qed.

Opaque phase_members fabric_members defaults_asdict default_params n_coefficients sum_tolerance sum_target
       input_get_defaults output_get_defaults phase_attr_junk.
(* also for the conversion checks at Qed *)
Strategy opaque [phase_members fabric_members defaults_asdict default_params n_coefficients sum_tolerance sum_target
                 input_get_defaults output_get_defaults phase_attr_junk presets].

(* ------------------------------------------------------------------ the defaults loop *)
Lemma cfor_with_defaults : forall (f : value -> value -> cres value) d p,
  (forall p k dv, f (VTable p) (VTuple [VStr k; dv]) = COk (VTable (dset k (getd k p dv) p))) ->
  cfor (map (fun kv => VTuple [VStr (fst kv); snd kv]) d) f (VTable p) = COk (VTable (with_defaults d p)).
Proof.
  intros f d. induction d as [|[k dv] r IH]; intros p H; simpl; [reflexivity|].
  rewrite H. simpl. rewrite IH by exact H. reflexivity.
Qed.

Lemma with_defaults_present : forall k p0, mem k defaults_asdict = true ->
  get k (with_defaults defaults_asdict p0) = Some (getd k (with_defaults defaults_asdict p0) VNone).
Proof.
  intros k p0 H. unfold getd. rewrite with_defaults_get. unfold mem in H.
  destruct (get k defaults_asdict); [reflexivity|discriminate].
Qed.

Lemma getitem_present : forall k p v, get k p = Some v -> py_getitem (VTable p) (VStr k) = COk v.
Proof. intros k p v H. simpl. now rewrite H. Qed.

Lemma params_table_getd : forall toml,
  params_table toml = match getd "parameters" toml (VTable []) with VTable t => COk t | _ => CErr AttributeErr end.
Proof. intros. unfold params_table, getd. destruct (get "parameters" toml) as [[]|]; reflexivity. Qed.

Lemma Zeqb_of_nat : forall a b, Z.eqb (Z.of_nat a) (Z.of_nat b) = Nat.eqb a b.
Proof.
  intros. destruct (Nat.eqb a b) eqn:E.
  - apply Nat.eqb_eq in E. subst. apply Z.eqb_refl.
  - apply Nat.eqb_neq in E. apply Z.eqb_neq. lia.
Qed.

(* the sum-to-one test: np.abs(np.sum(fr) - 1.0) <= 1e-16, negated *)
Lemma sum_test_chain : forall fr,
  defined (check_fractions v_fixed fr) ->
  (do b <- (do t4 <- (do t3 <- (do t2 <- py_np_sum fr; py_sub t2 (VFloat 0x1.0000000000000p+0)); py_np_abs t3);
            py_le t4 (VFloat 0x1.cd2b297d889bcp-54)); COk (negb b))
  = match check_fractions v_fixed fr with COk _ => COk false | CErr ConfigError => COk true | CErr e => CErr e end.
Proof.
  intros fr D. destruct tolerance_literals as [T1 T2]. unfold defined in D.
  assert (S : forall xs, (do b <- (do t4 <- (do t3 <- (do t2 <- COk (VFloat (np_sum xs)); py_sub t2 (VFloat 0x1.0000000000000p+0)); py_np_abs t3);
            py_le t4 (VFloat 0x1.cd2b297d889bcp-54)); COk (negb b)) = COk (negb (sum_ok v_fixed xs))).
  { intros xs. unfold sum_ok. cbn [v_nan_ok v_fixed]. rewrite T1, T2. reflexivity. }
  unfold check_fractions in *.
  destruct fr as [z|f|s|b| |l|l|t|cls n z|s|tag args]; cbn [py_np_sum num_of]; try (elim D; reflexivity).
  - rewrite S. destruct (sum_ok v_fixed [zf z]); reflexivity.
  - rewrite S. destruct (sum_ok v_fixed [f]); reflexivity.
  - rewrite S. destruct (sum_ok v_fixed [(if b then 1 else 0)%float]); reflexivity.
  - destruct (nums l) as [xs|]; [|elim D; reflexivity]. rewrite S. destruct (sum_ok v_fixed xs); reflexivity.
  - destruct (nums l) as [xs|]; [|elim D; reflexivity]. rewrite S. destruct (sum_ok v_fixed xs); reflexivity.
Qed.

Lemma mapM_inst : forall l, defined (mapM (parse_phase v_fixed) l) ->
  mapM (fun x => gen__parse_phase x) l = mapM (parse_phase v_fixed) l.
Proof.
  induction l as [|x r IH]; intros D; [reflexivity|]. unfold defined in *. cbn [mapM] in *.
  destruct (parse_phase v_fixed x) as [y|e] eqn:E.
  - rewrite inst_parse_phase by (unfold defined; rewrite E; discriminate). rewrite E. cbn [cbind] in *.
    destruct (mapM (parse_phase v_fixed) r) as [ys|e] eqn:Er.
    + rewrite IH by discriminate. reflexivity.
    + rewrite IH; [reflexivity|]. intro C. apply D. cbn [cbind]. now rewrite C.
  - cbn [cbind] in D. rewrite inst_parse_phase by (unfold defined; rewrite E; intro C; apply D; inversion C; reflexivity).
    rewrite E. reflexivity.
Qed.

Lemma parse_phase_errors : forall v e, parse_phase v_fixed v = CErr e -> e = ConfigError \/ e = Unmodelled.
Proof.
  intros v e H. destruct v; cbn [parse_phase] in H; unfold phase_of_name, phase_of_int in H; cbn [v_getattr v_int_phase v_fixed andb] in H;
    repeat match type of H with
           | context [match ?x with _ => _ end] => destruct x
           | context [if ?x then _ else _] => destruct x
           end; inversion H; auto.
Qed.

Lemma mapM_phase_errors : forall l e, mapM (parse_phase v_fixed) l = CErr e -> e = ConfigError \/ e = Unmodelled.
Proof.
  induction l as [|x r IH]; intros e H; [discriminate|]. cbn [mapM] in H.
  destruct (parse_phase v_fixed x) as [y|e'] eqn:E; cbn [cbind] in H.
  - destruct (mapM (parse_phase v_fixed) r) as [ys|e''] eqn:Er; cbn [cbind] in H; [discriminate|]. inversion H; subst. now apply IH.
  - inversion H; subst. eapply parse_phase_errors; eauto.
Qed.

Lemma seq_of_errors : forall v e, seq_of v = CErr e -> e = TypeErr \/ e = Unmodelled.
Proof. intros v e H. destruct v; inversion H; auto. Qed.

(* the fabric block: isinstance / "olivine_" + letter / getattr, with AttributeError and TypeError turned into ConfigError *)
Lemma fabric_chain : forall fab p1, defined (parse_fabric fab) ->
  ctry (if negb (py_isinstance fab [KMineralFabric])
        then do v <- (do t <- py_add (VStr "olivine_") fab; py_enum_getattr "MineralFabric" t);
             COk (v, VTable (dset "initial_olivine_fabric" v p1))
        else COk (fab, VTable (dset "initial_olivine_fabric" fab p1))) [AttributeErr; TypeErr] (CErr ConfigError)
  = cmap (fun f => (f, VTable (dset "initial_olivine_fabric" f p1))) (parse_fabric fab).
Proof.
  intros fab p1 D. unfold defined in D.
  destruct fab as [z|f|s|b| |l|l|t|cls n z|s|tag args];
    cbn [py_isinstance existsb isinst1 orb negb py_add is_text cbind py_enum_getattr ctry err_in parse_fabric cmap] in *;
    try reflexivity.
  - (* letter *)
    rewrite members_fabric.
    destruct (get_member ("olivine_" ++ s) fabric_members) as [z|]; [reflexivity|].
    assert (H : String.prefix "olivine_" ("olivine_" ++ s) = true) by (cbn; destruct s; reflexivity).
    rewrite H. reflexivity.
  - (* enumeration member *)
    destruct (String.eqb cls "MineralFabric"); cbn [negb orb].
    + destruct (get_member n fabric_members) as [z'|]; [|elim D; reflexivity].
      destruct (Z.eqb z z'); [reflexivity|elim D; reflexivity].
    + reflexivity.
  - (* opaque *)
    destruct (String.eqb tag "str"); reflexivity.
Qed.

Lemma py_ne_int : forall a b, py_ne (VInt a) (VInt b) = COk (negb (Z.eqb a b)).
Proof. reflexivity. Qed.
Lemma py_add_text' : forall l m s, (do t <- py_add (py_text l) (py_text m); py_add t (VStr s)) = COk (VOpaque "str" []).
Proof. reflexivity. Qed.
Lemma py_add_text : forall s l, py_add (VStr s) (py_text l) = COk (VOpaque "str" []).
Proof. reflexivity. Qed.

(* the model functions stay folded in the conversion checks (tactics and Qed); without this the kernel unfolds them
   when it compares the hypothesis "the model is defined here" across a case split (minutes instead of seconds) *)
Lemma parse_coefficients_unfold : forall v, parse_coefficients v =
  (do n <- len_of v;
   if negb (Nat.eqb n n_coefficients) then CErr ConfigError
   else match v with
        | VList l | VTuple l => COk (VTuple l)
        | VStr s => COk (VTuple (chars s))
        | _ => CErr Unmodelled
        end).
Proof. reflexivity. Qed.
Strategy opaque [parse_fabric parse_coefficients parse_phase check_fractions len_of seq_of mapM dset get].

(* _parse_config_params IS Model_config.parse_params (on every configuration tree whose [parameters] entry, if any,
   is not an opaque token, and wherever the model is defined) *)
Theorem inst_parse_config_params : forall toml,
  (forall t a, get "parameters" toml <> Some (VOpaque t a)) -> defined (parse_params v_fixed toml) ->
  gen__parse_config_params (VTable toml) = cmap VTable (parse_params v_fixed toml).
Proof.
  intros toml NO D. unfold gen__parse_config_params, cret, craise. cbn [py_get cbind py_items].
  unfold parse_params, defined in *. rewrite params_table_getd in *.
  assert (NO' : forall t a, getd "parameters" toml (VTable []) <> VOpaque t a).
  { intros t a C. unfold getd in C. destruct (get "parameters" toml) eqn:E; [subst; eapply NO; eauto|discriminate]. }
  destruct (getd "parameters" toml (VTable [])) as [z|f|s|b| |l|l|p0|cls n z|s|tag args];
    try (destruct defaults_nonempty as (k & v & r & ->); cbn [map cfor fst snd py_unpack2 py_get cbind]; reflexivity).
  2: { elim (NO' tag args). reflexivity. }
  erewrite cfor_with_defaults by (intros; reflexivity). cbn [cbind] in *.
  destruct defaults_keys as (K1 & K2 & K3 & K4).
  pose proof (with_defaults_present "phase_fractions" p0 K1) as F1.
  pose proof (with_defaults_present "phase_assemblage" p0 K2) as F2.
  pose proof (with_defaults_present "initial_olivine_fabric" p0 K3) as F3p.
  pose proof (with_defaults_present "disl_coefficients" p0 K4) as F4p.
  unfold parse_params_table in *. cbv zeta in *.
  remember (with_defaults defaults_asdict p0) as p eqn:Hp in *. clear Hp K1 K2 K3 K4 NO NO'.
  remember (getd "phase_fractions" p VNone) as fr eqn:Hfr in *.
  remember (getd "phase_assemblage" p VNone) as pa eqn:Hpa in *.
  rewrite !(getitem_present _ _ _ F1), !(getitem_present _ _ _ F2). cbn [cbind].
  (* sum test *)
  assert (D1 : defined (check_fractions v_fixed fr)).
  { intro C. apply D. now rewrite C. }
  rewrite (sum_test_chain fr D1).
  destruct (check_fractions v_fixed fr) as [[]|e] eqn:E1; cbn [cbind] in *.
  2: { destruct e; cbn [cbind py_text py_add is_text String.eqb Ascii.eqb Bool.eqb andb]; try reflexivity. }
  (* length test *)
  unfold py_len. destruct (len_of pa) as [la|e] eqn:E2; cbn [cbind] in *; [|reflexivity].
  destruct (len_of fr) as [lf|e] eqn:E3; cbn [cbind] in *; [|reflexivity].
  rewrite py_ne_int, Zeqb_of_nat. cbn [cbind]. destruct (Nat.eqb la lf) eqn:E4; cbn [negb] in *.
  2: { cbn [cbind py_text py_add is_text String.eqb Ascii.eqb Bool.eqb andb]. reflexivity. }
  (* phases *)
  unfold py_iter. destruct (seq_of pa) as [elems|e] eqn:E5; cbn [cbind] in *.
  2: { destruct (seq_of_errors _ _ E5) as [->| ->]; [reflexivity|elim D; reflexivity]. }
  assert (D2 : defined (mapM (parse_phase v_fixed) elems)).
  { intro C. apply D. now rewrite C. }
  rewrite (mapM_inst elems D2).
  destruct (mapM (parse_phase v_fixed) elems) as [phs|e] eqn:E6; cbn [cbind] in *.
  2: { destruct (mapM_phase_errors _ _ E6) as [->| ->]; [reflexivity|elim D; reflexivity]. }
  cbn [py_setitem cbind ctry].
  assert (F3 : get "initial_olivine_fabric" (dset "phase_assemblage" (VTuple phs) p)
               = Some (getd "initial_olivine_fabric" (dset "phase_assemblage" (VTuple phs) p) VNone)).
  { unfold getd. rewrite get_dset_other by reflexivity. rewrite F3p. reflexivity. }
  assert (F4q : forall x, get "disl_coefficients" (dset "initial_olivine_fabric" x (dset "phase_assemblage" (VTuple phs) p))
               = Some (getd "disl_coefficients" (dset "initial_olivine_fabric" x (dset "phase_assemblage" (VTuple phs) p)) VNone)).
  { intros x. unfold getd. rewrite !get_dset_other by reflexivity. rewrite F4p. reflexivity. }
  remember (dset "phase_assemblage" (VTuple phs) p) as p1 eqn:Hp1 in *. clear Hp1 F3p F4p.
  (* fabric *)
  remember (getd "initial_olivine_fabric" p1 VNone) as fab eqn:Hfab in *.
  rewrite !(getitem_present _ _ _ F3). cbn [cbind].
  assert (D3 : defined (parse_fabric fab)).
  { intro C. apply D. now rewrite C. }
  rewrite (fabric_chain fab p1 D3).
  destruct (parse_fabric fab) as [fab'|e] eqn:E7; cbn [cmap cbind] in *; [|reflexivity].
  pose proof (F4q fab') as F4. clear F4q.
  remember (dset "initial_olivine_fabric" fab' p1) as p2 eqn:Hp2 in *.
  remember (getd "disl_coefficients" p2 VNone) as co eqn:Hco in *.
  rewrite !(getitem_present _ _ _ F4), n_required_len'. cbn [cbind].
  rewrite parse_coefficients_unfold in *.
  destruct (len_of co) as [n|e] eqn:E8; cbn [cbind] in *; [|reflexivity].
  rewrite py_ne_int, Zeqb_of_nat. cbn [cbind]. destruct (Nat.eqb n n_coefficients); cbn [negb cbind] in *.
  2: { rewrite py_add_text. reflexivity. }
  destruct co; cbn [py_tuple seq_of cbind py_setitem cmap] in *; try reflexivity; try discriminate; try (elim D; reflexivity).
Qed.

Strategy transparent [parse_fabric parse_coefficients parse_phase check_fractions len_of seq_of mapM dset get].

(* ------------------------------------------------------------------ _parse_config_input_common *)
(* values as the TOML reader produces them are not enumeration members *)
Definition not_enum_value (v : value) : Prop := match v with VEnum _ _ _ => False | _ => True end.

Lemma isinstance_number : forall v, not_enum_value v -> py_isinstance v [KFloat; KInt] = is_num v.
Proof. intros v H. destruct v; try reflexivity. elim H. Qed.

(* _parse_config_input_common IS Model_config.parse_input_common (for timestep / strain_final values that are not
   enumeration members -- the TOML reader produces none -- and wherever the model is defined) *)
Theorem inst_parse_config_input_common : forall toml path,
  (forall i, get "input" toml = Some (VTable i) ->
     not_enum_value (getd "timestep" i (VFloat nan)) /\ not_enum_value (getd "strain_final" i (VFloat infinity))) ->
  defined (parse_input_common v_fixed toml) ->
  gen__parse_config_input_common (VTable toml) path = cmap VTable (parse_input_common v_fixed toml).
Proof.
  intros toml path NE D. unfold gen__parse_config_input_common, cret, craise, defined, parse_input_common in *.
  destruct input_defaults_literals as [I1 I2]. rewrite I1, I2 in *.
  cbn [py_getitem]. destruct (get "input" toml) as [iv|] eqn:Ei; cbn [cbind ctry err_in existsb orb cmap]; [|reflexivity].
  destruct iv as [z|f|s|b| |l|l|i|cls n z|s|tag args]; try (elim D; reflexivity).
  destruct (NE i eq_refl) as [N1 N2].
  cbn [py_not_in py_in cbind].
  set (ts := getd "timestep" i (VFloat nan)) in *.
  assert (S : getd "strain_final" (dset "timestep" ts i) (VFloat infinity) = getd "strain_final" i (VFloat infinity))
    by (apply getd_dset_other; reflexivity).
  rewrite S in *. set (sf := getd "strain_final" i (VFloat infinity)) in *.
  rewrite !getd_dset_same in *. unfold numeric_or_raise in *. cbn [v_builtin_input v_fixed] in *.
  destruct (mem "timestep" i) eqn:M1; destruct (mem "paths" i) eqn:M2; cbn [negb andb cbind] in *; try reflexivity.
  all: cbn [py_get py_setitem cbind py_getitem]; fold ts; rewrite !get_dset_same; cbn [cbind];
       rewrite (isinstance_number ts N1); destruct (is_num ts); cbn [negb cbind cmap py_get py_setitem py_getitem]; try reflexivity;
       rewrite ?S; rewrite ?get_dset_same; cbn [cbind];
       rewrite (isinstance_number sf N2); destruct (is_num sf); cbn [negb cbind cmap]; reflexivity.
Qed.

(* ------------------------------------------------------------------ _parse_output_options *)
(* MineralPhase[x] for every element: the members, or KeyError / TypeError where the model says "not a phase name" *)
Lemma mapM_output_rel : forall l,
  (exists ys, mapM (fun x => py_enum_item "MineralPhase" x) l = COk ys /\ mapM (output_phase v_fixed) l = COk ys) \/
  (exists e e', mapM (fun x => py_enum_item "MineralPhase" x) l = CErr e /\ err_in e [KeyErr; TypeErr] = true /\
                mapM (output_phase v_fixed) l = CErr e' /\ (e' = ConfigError \/ e' = TypeErr)).
Proof.
  induction l as [|x r IH]; [left; exists []; split; reflexivity|]. cbn [mapM].
  assert (X : (exists y, py_enum_item "MineralPhase" x = COk y /\ output_phase v_fixed x = COk y) \/
              (exists e e', py_enum_item "MineralPhase" x = CErr e /\ err_in e [KeyErr; TypeErr] = true /\
                            output_phase v_fixed x = CErr e' /\ (e' = ConfigError \/ e' = TypeErr))).
  { destruct x; cbn [py_enum_item output_phase];
      try (right; eexists _, _; split; [reflexivity|split; [reflexivity|split; [reflexivity|auto]]]).
    rewrite members_phase. unfold phase_of_name. cbn [v_getattr v_fixed andb].
    destruct (get_member s phase_members); [left; eauto|].
    right; eexists _, _; split; [reflexivity|split; [reflexivity|split; [reflexivity|auto]]]. }
  destruct X as [(y & -> & ->)|(e & e' & -> & C & -> & H)]; cbn [cbind].
  - destruct IH as [(ys & -> & ->)|(e & e' & -> & C & -> & H)]; cbn [cbind].
    + left. eauto.
    + right. eexists _, _. eauto.
  - right. eexists _, _. eauto.
Qed.

Lemma any_eq_phases : forall x l, is_phase x -> Forall is_phase l -> any_eq x l = COk (existsb (phase_eqb x) l).
Proof.
  intros x l (n & z & -> & _) F. induction F as [|y r (n' & z' & -> & _) _ IH]; [reflexivity|].
  cbn [any_eq py_eqb cbind existsb phase_eqb]. destruct (Z.eqb z z'); [reflexivity|exact IH].
Qed.

Lemma cfor_phases : forall (assemblage ys : list value) (st : value),
  Forall is_phase ys -> Forall is_phase assemblage ->
  cfor ys (fun st v => do b <- py_not_in v (VTuple assemblage); if b then CErr ConfigError else COk st) st
  = if forallb (fun p => existsb (phase_eqb p) assemblage) ys then COk st else CErr ConfigError.
Proof.
  intros assemblage ys st F PH. induction F as [|y r Hy _ IH]; [reflexivity|].
  cbn [cfor forallb]. unfold py_not_in, py_in. rewrite (any_eq_phases y assemblage Hy PH). cbn [cbind].
  destruct (existsb (phase_eqb y) assemblage); cbn [negb andb cbind]; [exact IH|reflexivity].
Qed.

(* _parse_output_options IS Model_config.output_options (for an assemblage of MineralPhase members -- what
   _parse_config_params returns -- and wherever the model is defined) *)
Theorem inst_parse_output_options : forall o level assemblage,
  Forall is_phase assemblage ->
  defined (output_options v_fixed o level assemblage) ->
  gen__parse_output_options (VTable o) (VStr level) (VTuple assemblage) = cmap VTable (output_options v_fixed o level assemblage).
Proof.
  intros o level assemblage PH D. unfold gen__parse_output_options, cret, craise, defined, output_options in *.
  cbn [py_not_in py_in cbind]. unfold mem.
  destruct (get level o) as [v|] eqn:Eg; cbn [negb cbind].
  2: { reflexivity. }
  rewrite !(getitem_present _ _ _ Eg). cbn [cbind]. unfold py_iter.
  destruct (seq_of v) as [elems|e] eqn:Es; cbn [cbind] in *.
  2: { destruct (seq_of_errors _ _ Es) as [->| ->]; [|elim D; reflexivity].
       cbn [ctry err_in existsb orb cbind]. rewrite py_add_text'. reflexivity. }
  destruct (mapM_output_rel elems) as [(ys & -> & E2)|(e & e' & -> & C & E2 & H)]; rewrite E2 in *; cbn [cbind py_setitem ctry].
  2: { rewrite C. cbn [cbind]. rewrite py_add_text'. destruct H as [->| ->]; reflexivity. }
  cbn [py_getitem]. rewrite get_dset_same. cbn [cbind seq_of].
  assert (F : Forall is_phase ys) by (eapply mapM_ok_forall; [|exact E2]; intros; eapply output_phase_sound; eauto).
  rewrite (cfor_phases assemblage ys VNone F PH).
  destruct (forallb (fun p => existsb (phase_eqb p) assemblage) ys); reflexivity.
Qed.

(* ------------------------------------------------------------------ a theorem of Proofs_config, restated about the generated code *)
Theorem generated_params_invariants : forall toml p',
  (forall t a, get "parameters" toml <> Some (VOpaque t a)) ->
  parse_params v_fixed toml = COk p' ->
  gen__parse_config_params (VTable toml) = COk (VTable p') /\ params_invariant p'.
Proof.
  intros toml p' NO H. split.
  - rewrite inst_parse_config_params; [now rewrite H|exact NO|unfold defined; rewrite H; discriminate].
  - unfold parse_params in H. destruct (params_table toml) as [p0|e]; [|discriminate]. cbn [cbind] in H.
    eapply params_invariants; eauto.
Qed.
