(* Proofs_frame4.v -- rows of A Q^T have the norms of the rows of A (Q^T Q = I), so an orthonormal grain stays inside
   the clip range of extract_vars in every frame *)
From Coq Require Import Reals List Lra Lia Nsatz.
From PV Require Import Num NumR Proofs_frame.
Open Scope R_scope.

Lemma rot_row_norm (Q A : arr R) r : SO3 Q -> (r < 3)%nat ->
  mm A (tp Q) (3 * r)%nat * mm A (tp Q) (3 * r)%nat
  + mm A (tp Q) (3 * r + 1)%nat * mm A (tp Q) (3 * r + 1)%nat
  + mm A (tp Q) (3 * r + 2)%nat * mm A (tp Q) (3 * r + 2)%nat
  = A (3 * r)%nat * A (3 * r)%nat + A (3 * r + 1)%nat * A (3 * r + 1)%nat + A (3 * r + 2)%nat * A (3 * r + 2)%nat.
Proof.
  intros [H00 H11 H22 H01 H02 H12 _ _ _ _ _ _ _ _ _] Hr.
  destruct r as [|[|[|r]]]; [| | |lia]; clear Hr; cbv [mm tp mk_arr List.nth Nat.mul Nat.add]; nsatz.
Qed.

Lemma rot_row_in_range (Q A : arr R) r q : SO3 Q -> (r < 3)%nat -> (q < 3)%nat ->
  A (3 * r)%nat * A (3 * r)%nat + A (3 * r + 1)%nat * A (3 * r + 1)%nat + A (3 * r + 2)%nat * A (3 * r + 2)%nat = 1 ->
  -1 <= mm A (tp Q) (3 * r + q)%nat <= 1.
Proof.
  intros HQ Hr Hq Hn. pose proof (rot_row_norm Q A r HQ Hr) as Hs. rewrite Hn in Hs.
  destruct q as [|[|[|q]]]; [| | |lia]; rewrite ?Nat.add_0_r; nra.
Qed.
