(* Proofs_mindex_batched.v -- the batched variant (model of imap over the stack): positional
   characterisation, independence of the chunking of the stack, first-error semantics. *)
From Coq Require Import Reals ZArith List Bool Lra Lia.
From PV Require Import Num NumR Model_mindex Proofs_mindex.
Import ListNotations.
Open Scope R_scope.

Lemma Forall2_collect_map {A B} (f : A -> res B) l r :
  Forall2 (fun a b => f a = Ok b) l r -> collect (map f l) = Ok r.
Proof. induction 1 as [|a b l r H _ IH]; cbn [map collect]; [reflexivity|]. now rewrite H, IH. Qed.

(* Ok exactly when every snapshot is Ok, and then position k holds the value of snapshot k *)
Theorem batched_iff (as_quat : list R -> Q4) v s stack ms :
  @misorientation_indices NumR as_quat v s stack = Ok ms <->
  Forall2 (fun os m => @misorientation_index NumR as_quat v s os = Ok m) stack ms.
Proof. split; [apply collect_map_Forall2|apply Forall2_collect_map]. Qed.

Lemma Forall2_nth {A B} (P : A -> B -> Prop) l r da db :
  Forall2 P l r -> length r = length l /\ forall k, (k < length l)%nat -> P (nth k l da) (nth k r db).
Proof.
  induction 1 as [|a b l r H _ [IHl IHn]]; cbn [length]; split; try lia.
  intros [|k] Hk; cbn [nth]; [assumption|]. apply IHn. lia.
Qed.

Theorem batched_nth (as_quat : list R -> Q4) v s stack ms :
  @misorientation_indices NumR as_quat v s stack = Ok ms ->
  length ms = length stack /\
  forall k, (k < length stack)%nat ->
    @misorientation_index NumR as_quat v s (nth k stack []) = Ok (nth k ms 0).
Proof.
  intros H. apply batched_iff in H.
  exact (Forall2_nth (fun os m => @misorientation_index NumR as_quat v s os = Ok m) stack ms [] 0 H).
Qed.

(* the stack may be cut into chunks handled separately (as a pool does) and the per-chunk
   results concatenated in chunk order: same result, values or error *)
Lemma collect_app {A} (l1 l2 : list (res A)) :
  collect (l1 ++ l2) =
  match collect l1 with
  | Ok r1 => match collect l2 with Ok r2 => Ok (r1 ++ r2) | Err e => Err e end
  | Err e => Err e
  end.
Proof.
  induction l1 as [|[a|e] l1 IH]; cbn [app collect].
  - destruct (collect l2); reflexivity.
  - rewrite IH. destruct (collect l1); [|reflexivity]. destruct (collect l2); reflexivity.
  - reflexivity.
Qed.

Definition bind_app {A} (x y : res (list A)) : res (list A) :=
  match x with
  | Ok r1 => match y with Ok r2 => Ok (r1 ++ r2) | Err e => Err e end
  | Err e => Err e
  end.

Theorem batched_app (as_quat : list R -> Q4) v s st1 st2 :
  @misorientation_indices NumR as_quat v s (st1 ++ st2) =
  bind_app (@misorientation_indices NumR as_quat v s st1) (@misorientation_indices NumR as_quat v s st2).
Proof. unfold misorientation_indices, bind_app. rewrite map_app. apply collect_app. Qed.

Theorem batched_chunks (as_quat : list R -> Q4) v s (chunks : list (list (list (list R)))) :
  @misorientation_indices NumR as_quat v s (concat chunks) =
  fold_right (fun c acc => bind_app (@misorientation_indices NumR as_quat v s c) acc) (Ok []) chunks.
Proof.
  induction chunks as [|c cs IH]; cbn [concat fold_right]; [reflexivity|].
  now rewrite batched_app, IH.
Qed.

(* an error is the error of the FIRST failing snapshot *)
Theorem batched_first_error (as_quat : list R -> Q4) v s stack e :
  @misorientation_indices NumR as_quat v s stack = Err e ->
  exists k, (k < length stack)%nat /\
    @misorientation_index NumR as_quat v s (nth k stack []) = Err e /\
    forall j, (j < k)%nat -> exists m, @misorientation_index NumR as_quat v s (nth j stack []) = Ok m.
Proof.
  unfold misorientation_indices. induction stack as [|os stack IH]; cbn [map collect]; [discriminate|].
  destruct (@misorientation_index NumR as_quat v s os) as [m|e'] eqn:E.
  - destruct (collect _) as [r|e'']; [discriminate|]. intros H; inversion H; subst.
    destruct (IH eq_refl) as (k & Hk & Ek & Hj). exists (S k). cbn [length nth].
    split; [lia|]. split; [assumption|]. intros [|j] Hlt; cbn [nth]; [exists m; exact E|]. apply Hj. lia.
  - intros H; inversion H; subst. exists 0%nat. cbn [length nth]. split; [lia|]. split; [assumption|].
    intros j Hj. lia.
Qed.
