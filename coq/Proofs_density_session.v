(* Proofs_density_session.v -- the counting grid of point_density behind a cache keyed on the grid size (Model_memo): a cache that
   hands out copies is invisible on every call history; one that hands out the stored arrays is not -- after the caller edits the
   returned grid in place, the same call returns the edited grid (seeded change C20f). *)
From Coq Require Import Reals List Arith Bool.
From PV Require Import Num NumR Model_density Model_memo Proofs_memo.
Import ListNotations.

Definition grid_of (g : nat) : list R * list R :=
  let cs := @counters NumR g in (map (fun c => fst (@lambert_pt NumR c)) cs, map (fun c => snd (@lambert_pt NumR c)) cs).

Theorem grid_cache_copying_transparent : forall ops, run grid_of Nat.eqb false [] ops = spec grid_of ops.
Proof.
  intros ops. apply memo_transparent_from_empty. intros a b H. apply Nat.eqb_eq in H. rewrite H. reflexivity.
Qed.

Lemma cons_neq {A} (x : A) (l : list A) : x :: l <> l.
Proof. induction l as [|y l IH]; [discriminate|]. intros H. injection H as Hxy H. subst y. now apply IH. Qed.

Theorem grid_cache_aliased_refuted : forall g (x : R),
  let r := (x :: fst (grid_of g), snd (grid_of g)) in
  run grid_of Nat.eqb true [] [Call g; Scribble g r; Call g] = [grid_of g; r] /\
  run grid_of Nat.eqb true [] [Call g; Scribble g r; Call g] <> spec grid_of [Call g; Scribble g r; Call g].
Proof.
  intros g x r. apply memo_aliased_refuted; [apply Nat.eqb_refl|].
  unfold r. intros H. apply (f_equal fst) in H. simpl in H. now apply cons_neq in H.
Qed.
