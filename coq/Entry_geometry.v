(* Entry_geometry.v -- flat-list entry points of the C20 models for the extracted driver. *)
From Coq Require Import ZArith List Bool Ascii String.
From PV Require Import Num Model_density Model_poles_axes.
From PV.gen Require Import Gen_geometry.
Import ListNotations.

Section Entry.
  Context {F : Num}.
  Definition aolg (l : list F) : arr F := mk_arr zero l.

  Fixpoint chunks9 (n : nat) (l : list F) : list (arr F) :=
    match n with
    | O => []
    | S n' => aolg (firstn 9 l) :: chunks9 n' (skipn 9 l)
    end.

  Fixpoint triples (n : nat) (l : list F) : list (F * F * F) :=
    match n, l with
    | S n', x :: y :: z :: l' => (x, y, z) :: triples n' l'
    | _, _ => []
    end.

  Definition run_to_cartesian (xs : list F) : res (list F) :=
    match xs with
    | [p; t; r] => let '(x, y, z) := k_to_cartesian p t r in Ok [x 0%nat; y 0%nat; z 0%nat]
    | _ => Err OtherError
    end.

  Definition run_to_spherical (xs : list F) : res (list F) :=
    match xs with
    | [x; y; z] =>
        match k_to_spherical x y z with
        | Err e => Err e
        | Ok (r, p, t) => Ok [r 0%nat; p 0%nat; t 0%nat]
        end
    | _ => Err OtherError
    end.

  Definition run_lambert (xs : list F) : res (list F) :=
    match xs with
    | [x; y; z] => let '(X, Y) := k_lambert_equal_area x y z in Ok [X 0%nat; Y 0%nat]
    | _ => Err OtherError
    end.

  (* A(9n) hkl(3) -> x1 y1 z1 x2 y2 z2 ... *)
  Definition run_poles (ax : Z) (n : nat) (xs : list F) : res (list F) :=
    let As := chunks9 n xs in
    let hkl := aolg (skipn (9 * n) xs) in
    match poles_all ax As hkl with
    | Err e => Err e
    | Ok ps => Ok (flat_map (fun p => let '(a, b, c) := p in [a; b; c]) ps)
    end.

  (* the reference-axes string as a list of character codes (ASCII) *)
  Definition str_of_codes (cs : list Z) : string :=
    fold_right (fun c s => String (ascii_of_nat (Z.to_nat c)) s) EmptyString cs.

  (* poles with ANY reference-axes string; `pick` = which candidate set.pop() returns *)
  Definition run_poles_str (n pick : nat) (cs : list Z) (xs : list F) : res (list F) :=
    let As := chunks9 n xs in
    let hkl := aolg (skipn (9 * n) xs) in
    match poles_str (str_of_codes cs) pick As hkl with
    | Err e => Err e
    | Ok ps => Ok (flat_map (fun p => let '(a, b, c) := p in [a; b; c]) ps)
    end.

  (* how the string is read: h v up_1 .. up_k  (or the exception) *)
  Definition run_axes_read (cs : list Z) (xs : list F) : res (list F) :=
    match ref_axes_read (str_of_codes cs) with
    | Err e => Err e
    | Ok (h, v, ups) => Ok (map (fun i : nat => ofZ (Z.of_nat i)) (h :: v :: ups))
    end.

  (* sigma w data(3n) -> X(g*g) Y(g*g) totals(g*g) *)
  Definition run_density (k axial : Z) (g n : nat) (xs : list F) : res (list F) :=
    match xs with
    | sigma :: w :: ds =>
        let '(X, Y, ts) := point_density k sigma w (negb (Z.eqb axial 0)) g (triples n ds) in
        Ok (X ++ Y ++ ts)
    | _ => Err OtherError
    end.

  (* the totals before normalisation and clipping (to watch the guard mean <> 0) *)
  Definition run_raw_totals (k axial : Z) (g n : nat) (xs : list F) : res (list F) :=
    match xs with
    | sigma :: w :: ds => Ok (raw_totals k sigma w (negb (Z.eqb axial 0)) g (triples n ds))
    | _ => Err OtherError
    end.
End Entry.
