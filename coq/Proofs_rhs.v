(* Proofs_rhs.v -- the vector field integrated by update_orientations (Model_minerals.rhs):
   C06 (F block = L.F, non-interference), C07 (null forcing, dispatch), C05 (scaling),
   C08 (phase fraction lookup). *)
From Coq Require Import Reals ZArith List Bool Lra Lia Permutation.
From PV Require Import Num NumR Model_core Model_minerals Proofs_core Proofs_total Proofs_minerals.
From PV.gen Require Import Gen_core.
Import ListNotations.
Open Scope R_scope.

Notation RL := (list R).

Definition res_map {A B} (f : A -> B) (r : res A) : res B :=
  match r with Ok a => Ok (f a) | Err e => Err e end.

(* ---- C06: the F block ---------------------------------------------------------------- *)
Theorem rhs_F_block regime ph fb n ass frs (L : RL) s Sd p nn lam M (y out : RL) :
  @rhs NumR regime ph fb n ass frs L s Sd p nn lam M y = Ok out ->
  firstn 9 out = @mat_mul9 NumR L (firstn 9 y).
Proof.
  unfold rhs. destruct (@lookup_fraction NumR ph ass frs) as [phi|]; [|discriminate].
  set (Fd := @mat_mul9 NumR L (@ev_F NumR y)).
  assert (HF : length Fd = 9%nat) by reflexivity.
  match goal with |- context [if ?c then _ else _] => destruct c end.
  - intros H; injection H as <-. first [reflexivity | apply firstn_app_exact; exact HF].
  - match goal with |- context [match ?c with Ok _ => _ | Err _ => _ end] => destruct c as [[ads fds]|] end; [|discriminate].
    intros H; injection H as <-. first [reflexivity | apply firstn_app_exact; exact HF].
Qed.

(* dF/dt does not depend on the mineral: phase, fabric, regime, grain count, texture,
   parameters, assemblage -- only on L and the F block of the state *)
Theorem rhs_F_noninterference
  regime ph fb n ass frs Sd p nn lam M (y : RL)
  regime' ph' fb' n' ass' frs' Sd' p' nn' lam' M' (y' : RL) (L : RL) s s' out out' :
  firstn 9 y = firstn 9 y' ->
  @rhs NumR regime ph fb n ass frs L s Sd p nn lam M y = Ok out ->
  @rhs NumR regime' ph' fb' n' ass' frs' L s' Sd' p' nn' lam' M' y' = Ok out' ->
  firstn 9 out = firstn 9 out'.
Proof.
  intros Hy H1 H2. apply rhs_F_block in H1. apply rhs_F_block in H2. rewrite Hy in H1.
  etransitivity; [exact H1 | symmetry; exact H2].
Qed.

(* entries of L.F, operand order included *)
Lemma mat_mul9_entries (a b : RL) i j : (i < 3)%nat -> (j < 3)%nat ->
  nth (3 * i + j) (@mat_mul9 NumR a b) 0 =
  nth (3 * i) a 0 * nth j b 0 + nth (3 * i + 1) a 0 * nth (3 + j) b 0 + nth (3 * i + 2) a 0 * nth (6 + j) b 0.
Proof.
  intros Hi Hj. destruct i as [|[|[|i]]]; try lia; destruct j as [|[|[|j]]]; try lia; reflexivity.
Qed.

(* ---- C07: null forcing ----------------------------------------------------------------- *)
Definition all_zero (l : RL) : Prop := Forall (fun x => x = 0) l.

Lemma all_zero_repeat k : all_zero (repeat 0 k).
Proof. apply Forall_forall. intros x Hx. apply repeat_spec in Hx. exact Hx. Qed.

Lemma all_zero_app a b : all_zero a -> all_zero b -> all_zero (a ++ b).
Proof. intros; apply Forall_app; split; assumption. Qed.

Lemma all_zero_scale (l : RL) s : all_zero l -> all_zero (map (fun x => x * s) l).
Proof. unfold all_zero. intros H. apply Forall_forall. intros x Hx. apply in_map_iff in Hx as [z [<- Hz]].
  rewrite Forall_forall in H. rewrite (H z Hz). ring. Qed.

(* zero strain-rate scale (in particular a zero velocity gradient): orientation and volume
   blocks of the vector field vanish, in EVERY regime (even unsupported ones are not reached) *)
Theorem rhs_zero_strain_rate regime ph fb n ass frs (L : RL) Sd p nn lam M (y : RL) phi :
  @lookup_fraction NumR ph ass frs = Ok phi ->
  exists out, @rhs NumR regime ph fb n ass frs L 0 Sd p nn lam M y = Ok out /\
              length (skipn 9 out) = (10 * n)%nat /\ all_zero (skipn 9 out).
Proof.
  intros Hl. unfold rhs. rewrite Hl. numR. rewrite (proj2 (Reqb_true 0 0) eq_refl).
  eexists; split; [reflexivity|]. rewrite skipn_app_exact by reflexivity.
  split; [apply repeat_length | apply all_zero_repeat].
Qed.

Lemma mat_mul9_zero (b : RL) : all_zero (@mat_mul9 NumR (repeat 0 9) b).
Proof.
  unfold mat_mul9, aol', mk_arr. cbn [repeat nth Nat.mul Nat.add]. numR.
  repeat constructor; ring.
Qed.

(* viscosity-bound regimes (0 = min_viscosity, 7 = max_viscosity): orientation and volume
   blocks vanish for every velocity gradient, while the F block still is L.F (C06) *)
Lemma flat_zeros9 {A} (os : list A) :
  all_zero (flat_map (arr_to_list 9) (map (fun _ => @zeros9 NumR) os)).
Proof.
  induction os as [|o os IH]; cbn [map flat_map]; [constructor|].
  apply all_zero_app; [|exact IH]. cbv [arr_to_list seq map zeros9 mk_arr nth]. repeat constructor.
Qed.

Lemma map_zeros {A} (os : list A) : all_zero (map (fun _ => 0) os).
Proof. induction os; cbn; constructor; auto. Qed.

Theorem rhs_null_regime regime ph fb n ass frs (L : RL) s Sd p nn lam M (y out : RL) :
  regime = 0%Z \/ regime = 7%Z ->
  @rhs NumR regime ph fb n ass frs L s Sd p nn lam M y = Ok out ->
  all_zero (skipn 9 out).
Proof.
  intros Hr. unfold rhs. destruct (@lookup_fraction NumR ph ass frs) as [phi|]; [|discriminate].
  match goal with |- context [if ?c then _ else _] => destruct c end.
  - intros H; injection H as <-. change (all_zero (repeat 0 (10 * n))). apply all_zero_repeat.
  - destruct Hr as [-> | ->]; cbn [derivs Z.eqb Pos.eqb]; intros H; injection H as <-;
    cbn [skipn];
    (apply all_zero_app; apply all_zero_scale; [apply flat_zeros9 | apply map_zeros]).
Qed.

(* regimes documented as unsupported, and every ordinal outside 0..7, are rejected *)
Theorem derivs_dispatch_unsupported regime ph fb os fs (D L S : arr NumR) p n lam M phi :
  (regime <> 0 /\ regime <> 1 /\ regime <> 4 /\ regime <> 6 /\ regime <> 7)%Z ->
  @derivs NumR regime ph fb os fs D L S p n lam M phi = Err ValueError.
Proof.
  intros [H0 [H1 [H4 [H6 H7]]]]. unfold derivs.
  repeat match goal with |- context [Z.eqb regime ?k] => destruct (Z.eqb_spec regime k); try contradiction end;
  reflexivity.
Qed.

Theorem derivs_dispatch_null regime ph fb os fs (D L S : arr NumR) p n lam M phi :
  (regime = 0 \/ regime = 7)%Z ->
  @derivs NumR regime ph fb os fs D L S p n lam M phi
  = Ok (map (fun _ => zeros9) os, map (fun _ => 0) os).
Proof. intros [-> | ->]; reflexivity. Qed.

(* a mismatched or out-of-range (phase, fabric) pair is rejected in the dislocation regimes
   as soon as there is a grain to evaluate *)
Theorem derivs_invalid_pair regime ph fb o os fs (D L S : arr NumR) p n lam M phi :
  dislocation_regime regime -> ~ valid_pair ph fb ->
  @derivs NumR regime ph fb (o :: os) fs D L S p n lam M phi = Err ValueError.
Proof.
  intros Hr Hv.
  assert (Hk : k_get_rotation_and_strain ph fb o D L p n lam = Err ValueError).
  { unfold k_get_rotation_and_strain.
    repeat match goal with |- context [Z.eqb ?a ?k] => destruct (Z.eqb_spec a k); subst end;
    try reflexivity; exfalso; apply Hv; unfold valid_pair; lia. }
  destruct Hr as [-> | ->]; cbn [derivs Z.eqb Pos.eqb grains]; rewrite Hk; reflexivity.
Qed.

Lemma Reqb_refl' x : Reqb x x = true.
Proof. apply Reqb_true; reflexivity. Qed.

(* ---- C05: strain-path dependence (scaling of the vector field) ------------------------ *)
Lemma list9 (l : RL) : length l = 9%nat ->
  exists a0 a1 a2 a3 a4 a5 a6 a7 a8, l = [a0; a1; a2; a3; a4; a5; a6; a7; a8].
Proof.
  intros H. do 9 (destruct l as [|? l]; [discriminate H|]). destruct l; [|discriminate H].
  repeat eexists.
Qed.

Lemma map_scale_zeros k m : map (Rmult k) (repeat 0 m) = repeat 0 m.
Proof. induction m as [|m IH]; cbn [repeat map]; [reflexivity|]. rewrite IH. apply (f_equal2 cons); [ring|reflexivity]. Qed.

Lemma map_scale_comp (l : RL) k s :
  map (fun x => x * (k * s)) l = map (Rmult k) (map (fun x => x * s) l).
Proof. rewrite map_map. apply map_ext. intros; ring. Qed.

(* multiply the velocity gradient (hence the strain-rate scale s) by k: the whole vector
   field -- all three state blocks -- is multiplied by k.  Dropping the division by s, or
   either multiplication by s, or scaling only some blocks, would falsify this lemma. *)
Theorem rhs_scaling regime ph fb n ass frs (L : RL) s Sd p nn lam M (y : RL) k :
  length L = 9%nat -> k <> 0 ->
  @rhs NumR regime ph fb n ass frs (map (Rmult k) L) (k * s) Sd p nn lam M y
  = res_map (map (Rmult k)) (@rhs NumR regime ph fb n ass frs L s Sd p nn lam M y).
Proof.
  intros HL Hk. destruct (list9 L HL) as [a0 [a1 [a2 [a3 [a4 [a5 [a6 [a7 [a8 ->]]]]]]]]].
  unfold rhs. destruct (@lookup_fraction NumR ph ass frs) as [phi|]; [|reflexivity].
  set (Fb := @ev_F NumR y).
  assert (HF : @mat_mul9 NumR (map (Rmult k) [a0; a1; a2; a3; a4; a5; a6; a7; a8]) Fb
               = map (Rmult k) (@mat_mul9 NumR [a0; a1; a2; a3; a4; a5; a6; a7; a8] Fb)).
  { unfold mat_mul9, aol', mk_arr. cbn [map nth Nat.mul Nat.add]. numR. repeat (apply (f_equal2 cons); [ring|]). reflexivity. }
  rewrite HF. numR.
  destruct (Reqb s 0) eqn:Hs; bool2prop.
  - subst s. rewrite Rmult_0_r, Reqb_refl'. cbn [res_map]. rewrite map_app, map_scale_zeros. reflexivity.
  - assert (Hks : Reqb (k * s) 0 = false) by (apply Reqb_false; nra).
    rewrite Hks.
    assert (HD : map (fun x => x / (k * s)) (@sym9 NumR (map (Rmult k) [a0; a1; a2; a3; a4; a5; a6; a7; a8]))
                 = map (fun x => x / s) (@sym9 NumR [a0; a1; a2; a3; a4; a5; a6; a7; a8])).
    { unfold sym9, aol', mk_arr. cbn [map nth Nat.mul Nat.add]. numR. repeat (apply (f_equal2 cons); [field; auto|]). reflexivity. }
    assert (HLs : map (fun x => x / (k * s)) (map (Rmult k) [a0; a1; a2; a3; a4; a5; a6; a7; a8])
                  = map (fun x => x / s) [a0; a1; a2; a3; a4; a5; a6; a7; a8]).
    { cbn [map]. repeat (apply (f_equal2 cons); [field; auto|]). reflexivity. }
    numR. rewrite HD, HLs.
    match goal with |- context [match ?c with Ok _ => _ | Err _ => _ end] => destruct c as [[ads fds]|] end;
      [|reflexivity].
    cbn [res_map]. rewrite !map_app, <- !map_scale_comp. reflexivity.
Qed.

(* the strain-rate scale: m is the largest |v.D v| over unit vectors (= largest absolute
   eigenvalue for symmetric D).  The characterisation is functional, positively
   homogeneous and invariant under rotations -- so the only thing assumed of LAPACK's
   eigvalsh is that np.abs(eigvalsh(D)).max() IS this number *)
Definition quad (D : RL) (v : R * R * R) : R :=
  let '(x, y, z) := v in
  let d i := nth i D 0 in
  x * (d 0%nat * x + d 1%nat * y + d 2%nat * z) + y * (d 3%nat * x + d 4%nat * y + d 5%nat * z)
  + z * (d 6%nat * x + d 7%nat * y + d 8%nat * z).
Definition unit3 (v : R * R * R) : Prop := let '(x, y, z) := v in x * x + y * y + z * z = 1.
Definition is_eigmax (D : RL) (m : R) : Prop :=
  (forall v, unit3 v -> Rabs (quad D v) <= m) /\ (exists v, unit3 v /\ Rabs (quad D v) = m).

Theorem eigmax_unique D m m' : is_eigmax D m -> is_eigmax D m' -> m = m'.
Proof.
  intros [H1 [v [Hv Hm]]] [H1' [v' [Hv' Hm']]].
  pose proof (H1 v' Hv'). pose proof (H1' v Hv). lra.
Qed.

Theorem eigmax_homogeneous (D : RL) m k : length D = 9%nat -> 0 < k ->
  is_eigmax D m -> is_eigmax (map (Rmult k) D) (k * m).
Proof.
  intros HD Hk [H1 [v [Hv Hm]]].
  destruct (list9 D HD) as [a0 [a1 [a2 [a3 [a4 [a5 [a6 [a7 [a8 ->]]]]]]]]].
  assert (Hq : forall w, quad (map (Rmult k) [a0; a1; a2; a3; a4; a5; a6; a7; a8]) w
                          = k * quad [a0; a1; a2; a3; a4; a5; a6; a7; a8] w).
  { intros [[x y] z]. unfold quad. cbn [map nth]. ring. }
  split.
  - intros w Hw. rewrite Hq, Rabs_mult, (Rabs_right k) by lra.
    apply Rmult_le_compat_l; [lra|]. apply H1. exact Hw.
  - exists v. split; [exact Hv|]. rewrite Hq, Rabs_mult, (Rabs_right k) by lra. rewrite Hm. reflexivity.
Qed.

Lemma map2_ext_R' {A B} (f g : A -> B -> R) l1 l2 :
  (forall a b, f a b = g a b) -> map2 f l1 l2 = map2 g l1 l2.
Proof. intros H; revert l2; induction l1 as [|a l1 IH]; intros [|b l2]; cbn; try reflexivity; rewrite H, IH; reflexivity. Qed.

(* ---- C08: the phase volume fraction -------------------------------------------------- *)
(* a mineral in an assemblage sees exactly the vector field of the same mineral alone with
   its own fraction: no other phase's fraction enters *)
Theorem rhs_only_own_fraction regime ph fb n ass frs (L : RL) s Sd p nn lam M (y : RL) phi :
  @lookup_fraction NumR ph ass frs = Ok phi ->
  @rhs NumR regime ph fb n ass frs L s Sd p nn lam M y
  = @rhs NumR regime ph fb n [ph] [phi] L s Sd p nn lam M y.
Proof.
  intros Hl. unfold rhs. rewrite Hl.
  unfold lookup_fraction. cbn [index_of]. rewrite Z.eqb_refl. cbn [nth_error]. reflexivity.
Qed.

(* ... and the fraction enters only through the product phi * M* *)
Theorem derivs_fraction_times_mobility regime ph fb os fs (D L S : arr NumR) p n lam M phi :
  @derivs NumR regime ph fb os fs D L S p n lam M phi
  = @derivs NumR regime ph fb os fs D L S p n lam (phi * M) 1.
Proof.
  unfold derivs.
  repeat match goal with |- context [Z.eqb regime ?k] => destruct (Z.eqb regime k) end; try reflexivity;
  (destruct (grains ph fb os D L p n lam) as [rs|]; [|reflexivity]); f_equal; f_equal;
  rewrite !frac_rates_R; apply map2_ext_R'; intros f e; cbn [rate1]; ring.
Qed.

Lemma lookup_in ph x (ass : list Z) (frs : RL) :
  NoDup ass -> length ass = length frs -> In (ph, x) (combine ass frs) ->
  @lookup_fraction NumR ph ass frs = Ok x.
Proof.
  unfold lookup_fraction. revert frs. induction ass as [|a ass IH]; intros [|f frs] Hnd Hl Hin;
    cbn in *; try contradiction; try discriminate.
  inversion Hnd as [|? ? Hna Hnd']; subst.
  destruct Hin as [Heq|Hin].
  - injection Heq as -> ->. rewrite Z.eqb_refl. reflexivity.
  - destruct (Z.eqb_spec a ph) as [->|Hne].
    + exfalso. apply Hna. apply in_combine_l in Hin. exact Hin.
    + specialize (IH frs Hnd' ltac:(lia) Hin).
      destruct (index_of ph ass) as [i|]; cbn [option_map nth_error] in *; [exact IH|discriminate IH].
Qed.

Lemma lookup_notin ph (ass : list Z) (frs : RL) :
  ~ In ph ass -> @lookup_fraction NumR ph ass frs = Err TypeError.
Proof.
  unfold lookup_fraction. intros Hn.
  assert (H : index_of ph ass = None).
  { induction ass as [|a ass IH]; [reflexivity|]. cbn [index_of].
    destruct (Z.eqb_spec a ph) as [->|Hne]; [exfalso; apply Hn; left; reflexivity|].
    rewrite IH; [reflexivity|]. intro Hc; apply Hn; right; exact Hc. }
  rewrite H. reflexivity.
Qed.

Lemma in_ass_combine ph (ass : list Z) (frs : RL) :
  length ass = length frs -> In ph ass -> exists x, In (ph, x) (combine ass frs).
Proof.
  revert frs; induction ass as [|a ass IH]; intros [|f frs] Hl Hin; cbn in *; try contradiction; try discriminate.
  destruct Hin as [->|Hin]; [exists f; left; reflexivity|].
  destruct (IH frs ltac:(lia) Hin) as [x Hx]. exists x. right. exact Hx.
Qed.

(* simultaneous permutation of the phase list and the fraction list does not change the
   fraction any phase receives (a lookup by list position would) *)
Theorem lookup_permutation ph (ass ass' : list Z) (frs frs' : RL) :
  NoDup ass -> NoDup ass' -> length ass = length frs -> length ass' = length frs' ->
  Permutation (combine ass frs) (combine ass' frs') ->
  @lookup_fraction NumR ph ass frs = @lookup_fraction NumR ph ass' frs'.
Proof.
  intros Hnd Hnd' Hl Hl' Hp.
  destruct (in_dec Z.eq_dec ph ass) as [Hin|Hnin].
  - destruct (in_ass_combine ph ass frs Hl Hin) as [x Hx].
    rewrite (lookup_in ph x ass frs Hnd Hl Hx).
    symmetry. apply lookup_in; try assumption. eapply Permutation_in; eassumption.
  - rewrite (lookup_notin ph ass frs Hnin). symmetry. apply lookup_notin.
    intro Hin'. destruct (in_ass_combine ph ass' frs' Hl' Hin') as [x Hx].
    apply Hnin. apply Permutation_sym in Hp. pose proof (Permutation_in _ Hp Hx) as Hx'.
    apply in_combine_l in Hx'. exact Hx'.
Qed.

(* ---- C06: determinant ------------------------------------------------------------------ *)
Definition det9 (F : RL) : R :=
  let f i := nth i F 0 in
  f 0%nat * (f 4%nat * f 8%nat - f 5%nat * f 7%nat) - f 1%nat * (f 3%nat * f 8%nat - f 5%nat * f 6%nat)
  + f 2%nat * (f 3%nat * f 7%nat - f 4%nat * f 6%nat).
Definition trace9 (L : RL) : R := nth 0 L 0 + nth 4 L 0 + nth 8 L 0.
(* directional derivative of det at F in direction G:  sum_ij cof(F)_ij G_ij *)
Definition det_rate9 (F G : RL) : R :=
  let f i := nth i F 0 in let g i := nth i G 0 in
  g 0%nat * (f 4%nat * f 8%nat - f 5%nat * f 7%nat) - g 1%nat * (f 3%nat * f 8%nat - f 5%nat * f 6%nat)
  + g 2%nat * (f 3%nat * f 7%nat - f 4%nat * f 6%nat)
  - g 3%nat * (f 1%nat * f 8%nat - f 2%nat * f 7%nat) + g 4%nat * (f 0%nat * f 8%nat - f 2%nat * f 6%nat)
  - g 5%nat * (f 0%nat * f 7%nat - f 1%nat * f 6%nat)
  + g 6%nat * (f 1%nat * f 5%nat - f 2%nat * f 4%nat) - g 7%nat * (f 0%nat * f 5%nat - f 2%nat * f 3%nat)
  + g 8%nat * (f 0%nat * f 4%nat - f 1%nat * f 3%nat).

Lemma det_rate_identity (L F : RL) : length L = 9%nat -> length F = 9%nat ->
  det_rate9 F (@mat_mul9 NumR L F) = trace9 L * det9 F.
Proof.
  intros HL HF.
  destruct (list9 L HL) as [a0 [a1 [a2 [a3 [a4 [a5 [a6 [a7 [a8 ->]]]]]]]]].
  destruct (list9 F HF) as [b0 [b1 [b2 [b3 [b4 [b5 [b6 [b7 [b8 ->]]]]]]]]].
  unfold det_rate9, trace9, det9, mat_mul9, aol', mk_arr. cbn [nth Nat.mul Nat.add]. numR. ring.
Qed.

Lemma update_returns_F_block' n chi (prev : @snapshot NumR) (y : RL) :
  length y = (9 + 10 * n)%nat -> fst (@update NumR n chi prev y) = firstn 9 y.
Proof.
  intros Hy. unfold update. cbn [fst]. unfold ev_F at 1.
  apply firstn_app_exact. unfold ev_F. rewrite firstn_length. change (T NumR) with R in *. lia.
Qed.

(* ---- examples / witnesses ---------------------------------------------------------------- *)
Lemma C07_nonvacuous_proof : (5 <> 0 /\ 5 <> 1 /\ 5 <> 4 /\ 5 <> 6 /\ 5 <> 7)%Z /\ ~ valid_pair 1 0.
Proof. split; [lia|]. unfold valid_pair. lia. Qed.

Lemma C05_nonvacuous_proof :
  length [1; 0; 0; 0; -1; 0; 0; 0; 0] = 9%nat /\ 1e-15 <> 0 /\ is_eigmax [1; 0; 0; 0; -1; 0; 0; 0; 0] 1.
Proof.
  split; [reflexivity|]. split; [lra|]. split.
  - intros [[x y] z] Hu. unfold quad, unit3 in *. cbn [nth]. apply Rabs_le. nra.
  - exists (1, 0, 0). split; [unfold unit3; ring|]. unfold quad. cbn [nth].
    replace (1 * (1 * 1 + 0 * 0 + 0 * 0) + 0 * (0 * 1 + -1 * 0 + 0 * 0) + 0 * (0 * 1 + 0 * 0 + 0 * 0)) with 1 by ring.
    apply Rabs_R1.
Qed.

Lemma lookup_by_position_refuted :
  exists (ass ass' : list Z) (frs frs' : RL),
    Permutation (combine ass frs) (combine ass' frs') /\ nth_error frs 0 <> nth_error frs' 0.
Proof.
  exists [0; 1]%Z, [1; 0]%Z, [0.7; 0.3], [0.3; 0.7]. split.
  - cbn. apply perm_swap.
  - cbn. intro H. injection H. lra.
Qed.

Lemma C08_nonvacuous_proof :
  NoDup [0; 1]%Z /\ Permutation (combine [0; 1]%Z [0.7; 0.3]) (combine [1; 0]%Z [0.3; 0.7]).
Proof.
  split.
  - constructor; [cbn; intros [H|[]]; discriminate|]. constructor; [intros []|constructor].
  - cbn. apply perm_swap.
Qed.

