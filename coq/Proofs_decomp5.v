(* Proofs_decomp5.v -- C12 for general tensors, steps (A), (B), (C), (E) (see Proofs_decomp4.v for the plan
   and step (D)). *)
From Coq Require Import Reals ZArith List Lra Lia Bool.
From PV Require Import Num NumR Model_voigt Model_decomp Proofs_tensors_alg Proofs_tensors_rot
  Proofs_tensors_maps Proofs_tensors_proj Inst_tensors Proofs_decomp Proofs_decomp2 Proofs_decomp3 Proofs_decomp4.
From PV.gen Require Import Gen_tensors.
Import ListNotations.
Open Scope R_scope.

(* Rq applied to a vector *)
Definition rotv (Q : M3) (u : nat -> R) : nat -> R := fun r => sum3 (fun b => Q r b * u b).

Lemma rot_dot (Q : M3) (u w : nat -> R) : orth Q ->
  sum3 (fun r => rotv Q u r * rotv Q w r) = sum3 (fun b => u b * w b).
Proof.
  intros H. unfold rotv, sum3.
  pose proof (H 0 0 ltac:(lia) ltac:(lia))%nat as O00. pose proof (H 0 1 ltac:(lia) ltac:(lia))%nat as O01.
  pose proof (H 0 2 ltac:(lia) ltac:(lia))%nat as O02. pose proof (H 1 1 ltac:(lia) ltac:(lia))%nat as O11.
  pose proof (H 1 2 ltac:(lia) ltac:(lia))%nat as O12. pose proof (H 2 2 ltac:(lia) ltac:(lia))%nat as O22.
  unfold sum3 in *. cbn [Nat.eqb] in *.
  transitivity (u 0%nat * w 0%nat * (Q 0%nat 0%nat * Q 0%nat 0%nat + Q 1%nat 0%nat * Q 1%nat 0%nat + Q 2%nat 0%nat * Q 2%nat 0%nat)
    + u 1%nat * w 1%nat * (Q 0%nat 1%nat * Q 0%nat 1%nat + Q 1%nat 1%nat * Q 1%nat 1%nat + Q 2%nat 1%nat * Q 2%nat 1%nat)
    + u 2%nat * w 2%nat * (Q 0%nat 2%nat * Q 0%nat 2%nat + Q 1%nat 2%nat * Q 1%nat 2%nat + Q 2%nat 2%nat * Q 2%nat 2%nat)
    + (u 0%nat * w 1%nat + u 1%nat * w 0%nat) * (Q 0%nat 0%nat * Q 0%nat 1%nat + Q 1%nat 0%nat * Q 1%nat 1%nat + Q 2%nat 0%nat * Q 2%nat 1%nat)
    + (u 0%nat * w 2%nat + u 2%nat * w 0%nat) * (Q 0%nat 0%nat * Q 0%nat 2%nat + Q 1%nat 0%nat * Q 1%nat 2%nat + Q 2%nat 0%nat * Q 2%nat 2%nat)
    + (u 1%nat * w 2%nat + u 2%nat * w 1%nat) * (Q 0%nat 1%nat * Q 0%nat 2%nat + Q 1%nat 1%nat * Q 1%nat 2%nat + Q 2%nat 1%nat * Q 2%nat 2%nat)); [ring|].
  rewrite O00, O01, O02, O11, O12, O22. ring.
Qed.

(* ---------------------------------------------------------------------- *)
(* (A) eigenvectors co-rotate up to sign                                   *)
(* ---------------------------------------------------------------------- *)
(* column j of E is sg j * Rq . (column j of E0) *)
Definition corot (Q : M3) (E0 E : arr NumR) (s : nat -> R) : Prop :=
  (forall j, (j < 3)%nat -> pm1 (s j)) /\
  forall j r, (j < 3)%nat -> (r < 3)%nat -> mat3 E r j = s j * rotv Q (colv (mat3 E0) j) r.

Lemma eig_corot (S0 S : M3) (E0 E : arr NumR) (Q : M3) (lam : nat -> R) :
  sym3 S -> orth Q -> eq2b S (mm (mm Q S0) (tr3 Q)) ->
  orth (mat3 E0) -> eigcols S0 (mat3 E0) lam -> distinct3 lam ->
  orth (mat3 E) -> eigcols S (mat3 E) lam ->
  exists s, corot Q E0 E s.
Proof.
  intros HS HQ HSS HE0 Hl0 Hd HE Hl.
  set (B := fun r j => rotv Q (colv (mat3 E0) j) r).
  assert (HB : orth B).
  { intros a e Ha He. unfold B. rewrite (rot_dot Q _ _ HQ). apply (HE0 a e Ha He). }
  assert (HlB : eigcols S B lam).
  { intros j i Hj Hi. unfold mv, colv, B.
    rewrite (sum3_ext _ (fun k => mm (mm Q S0) (tr3 Q) i k * rotv Q (colv (mat3 E0) j) k))
      by (intros a Ha; rewrite (HSS i a Hi Ha); reflexivity).
    pose proof (Hl0 j 0%nat Hj ltac:(lia)) as L0. pose proof (Hl0 j 1%nat Hj ltac:(lia)) as L1.
    pose proof (Hl0 j 2%nat Hj ltac:(lia)) as L2. unfold mv, colv, sum3 in L0, L1, L2.
    pose proof (HQ 0 0 ltac:(lia) ltac:(lia))%nat as O00. pose proof (HQ 0 1 ltac:(lia) ltac:(lia))%nat as O01.
    pose proof (HQ 0 2 ltac:(lia) ltac:(lia))%nat as O02. pose proof (HQ 1 1 ltac:(lia) ltac:(lia))%nat as O11.
    pose proof (HQ 1 2 ltac:(lia) ltac:(lia))%nat as O12. pose proof (HQ 2 2 ltac:(lia) ltac:(lia))%nat as O22.
    unfold sum3 in O00, O01, O02, O11, O12, O22. cbn [Nat.eqb] in *.
    unfold mm, tr3, rotv, colv, sum3.
    set (e0 := mat3 E0 0%nat j) in *. set (e1 := mat3 E0 1%nat j) in *. set (e2 := mat3 E0 2%nat j) in *.
    (* Q S0 Q^T Q e = Q S0 e = lam Q e *)
    transitivity (
      Q i 0%nat * (S0 0%nat 0%nat * (e0 * (Q 0%nat 0%nat * Q 0%nat 0%nat + Q 1%nat 0%nat * Q 1%nat 0%nat + Q 2%nat 0%nat * Q 2%nat 0%nat)
                                   + e1 * (Q 0%nat 0%nat * Q 0%nat 1%nat + Q 1%nat 0%nat * Q 1%nat 1%nat + Q 2%nat 0%nat * Q 2%nat 1%nat)
                                   + e2 * (Q 0%nat 0%nat * Q 0%nat 2%nat + Q 1%nat 0%nat * Q 1%nat 2%nat + Q 2%nat 0%nat * Q 2%nat 2%nat))
                 + S0 0%nat 1%nat * (e0 * (Q 0%nat 0%nat * Q 0%nat 1%nat + Q 1%nat 0%nat * Q 1%nat 1%nat + Q 2%nat 0%nat * Q 2%nat 1%nat)
                                   + e1 * (Q 0%nat 1%nat * Q 0%nat 1%nat + Q 1%nat 1%nat * Q 1%nat 1%nat + Q 2%nat 1%nat * Q 2%nat 1%nat)
                                   + e2 * (Q 0%nat 1%nat * Q 0%nat 2%nat + Q 1%nat 1%nat * Q 1%nat 2%nat + Q 2%nat 1%nat * Q 2%nat 2%nat))
                 + S0 0%nat 2%nat * (e0 * (Q 0%nat 0%nat * Q 0%nat 2%nat + Q 1%nat 0%nat * Q 1%nat 2%nat + Q 2%nat 0%nat * Q 2%nat 2%nat)
                                   + e1 * (Q 0%nat 1%nat * Q 0%nat 2%nat + Q 1%nat 1%nat * Q 1%nat 2%nat + Q 2%nat 1%nat * Q 2%nat 2%nat)
                                   + e2 * (Q 0%nat 2%nat * Q 0%nat 2%nat + Q 1%nat 2%nat * Q 1%nat 2%nat + Q 2%nat 2%nat * Q 2%nat 2%nat)))
    + Q i 1%nat * (S0 1%nat 0%nat * (e0 * (Q 0%nat 0%nat * Q 0%nat 0%nat + Q 1%nat 0%nat * Q 1%nat 0%nat + Q 2%nat 0%nat * Q 2%nat 0%nat)
                                   + e1 * (Q 0%nat 0%nat * Q 0%nat 1%nat + Q 1%nat 0%nat * Q 1%nat 1%nat + Q 2%nat 0%nat * Q 2%nat 1%nat)
                                   + e2 * (Q 0%nat 0%nat * Q 0%nat 2%nat + Q 1%nat 0%nat * Q 1%nat 2%nat + Q 2%nat 0%nat * Q 2%nat 2%nat))
                 + S0 1%nat 1%nat * (e0 * (Q 0%nat 0%nat * Q 0%nat 1%nat + Q 1%nat 0%nat * Q 1%nat 1%nat + Q 2%nat 0%nat * Q 2%nat 1%nat)
                                   + e1 * (Q 0%nat 1%nat * Q 0%nat 1%nat + Q 1%nat 1%nat * Q 1%nat 1%nat + Q 2%nat 1%nat * Q 2%nat 1%nat)
                                   + e2 * (Q 0%nat 1%nat * Q 0%nat 2%nat + Q 1%nat 1%nat * Q 1%nat 2%nat + Q 2%nat 1%nat * Q 2%nat 2%nat))
                 + S0 1%nat 2%nat * (e0 * (Q 0%nat 0%nat * Q 0%nat 2%nat + Q 1%nat 0%nat * Q 1%nat 2%nat + Q 2%nat 0%nat * Q 2%nat 2%nat)
                                   + e1 * (Q 0%nat 1%nat * Q 0%nat 2%nat + Q 1%nat 1%nat * Q 1%nat 2%nat + Q 2%nat 1%nat * Q 2%nat 2%nat)
                                   + e2 * (Q 0%nat 2%nat * Q 0%nat 2%nat + Q 1%nat 2%nat * Q 1%nat 2%nat + Q 2%nat 2%nat * Q 2%nat 2%nat)))
    + Q i 2%nat * (S0 2%nat 0%nat * (e0 * (Q 0%nat 0%nat * Q 0%nat 0%nat + Q 1%nat 0%nat * Q 1%nat 0%nat + Q 2%nat 0%nat * Q 2%nat 0%nat)
                                   + e1 * (Q 0%nat 0%nat * Q 0%nat 1%nat + Q 1%nat 0%nat * Q 1%nat 1%nat + Q 2%nat 0%nat * Q 2%nat 1%nat)
                                   + e2 * (Q 0%nat 0%nat * Q 0%nat 2%nat + Q 1%nat 0%nat * Q 1%nat 2%nat + Q 2%nat 0%nat * Q 2%nat 2%nat))
                 + S0 2%nat 1%nat * (e0 * (Q 0%nat 0%nat * Q 0%nat 1%nat + Q 1%nat 0%nat * Q 1%nat 1%nat + Q 2%nat 0%nat * Q 2%nat 1%nat)
                                   + e1 * (Q 0%nat 1%nat * Q 0%nat 1%nat + Q 1%nat 1%nat * Q 1%nat 1%nat + Q 2%nat 1%nat * Q 2%nat 1%nat)
                                   + e2 * (Q 0%nat 1%nat * Q 0%nat 2%nat + Q 1%nat 1%nat * Q 1%nat 2%nat + Q 2%nat 1%nat * Q 2%nat 2%nat))
                 + S0 2%nat 2%nat * (e0 * (Q 0%nat 0%nat * Q 0%nat 2%nat + Q 1%nat 0%nat * Q 1%nat 2%nat + Q 2%nat 0%nat * Q 2%nat 2%nat)
                                   + e1 * (Q 0%nat 1%nat * Q 0%nat 2%nat + Q 1%nat 1%nat * Q 1%nat 2%nat + Q 2%nat 1%nat * Q 2%nat 2%nat)
                                   + e2 * (Q 0%nat 2%nat * Q 0%nat 2%nat + Q 1%nat 2%nat * Q 1%nat 2%nat + Q 2%nat 2%nat * Q 2%nat 2%nat)))); [ring|].
    rewrite O00, O01, O02, O11, O12, O22.
    transitivity (Q i 0%nat * (S0 0%nat 0%nat * e0 + S0 0%nat 1%nat * e1 + S0 0%nat 2%nat * e2)
                + Q i 1%nat * (S0 1%nat 0%nat * e0 + S0 1%nat 1%nat * e1 + S0 1%nat 2%nat * e2)
                + Q i 2%nat * (S0 2%nat 0%nat * e0 + S0 2%nat 1%nat * e1 + S0 2%nat 2%nat * e2)); [ring|].
    rewrite L0, L1, L2. ring. }
  assert (U : forall j, (j < 3)%nat -> exists sg, pm1 sg /\ forall r, (r < 3)%nat -> mat3 E r j = sg * B r j).
  { intros j Hj.
    destruct (eigvec_unique S B lam (colv (mat3 E) j) (lam j) HS HB HlB
                (fun r Hr => Hl j r Hj Hr) Hd) as (k & sg & Hk & Hsg & Hmu & Hv).
    - pose proof (HE j j Hj Hj) as O. rewrite Nat.eqb_refl in O. exact O.
    - assert (k = j).
      { destruct Hd as (D01 & D02 & D12).
        destruct j as [|[|[|j]]]; [ | | | exfalso; lia ]; destruct k as [|[|[|k]]]; try reflexivity; try (exfalso; lia);
          exfalso; first [apply D01; congruence | apply D02; congruence | apply D12; congruence]. }
      subst k. exists sg. split; [destruct Hsg as [-> | ->]; [left | right]; lra|]. exact Hv. }
  destruct (U 0%nat ltac:(lia)) as (s0 & S0' & F0). destruct (U 1%nat ltac:(lia)) as (s1 & S1' & F1).
  destruct (U 2%nat ltac:(lia)) as (s2 & S2' & F2).
  exists (fun j : nat => match j with 0 => s0 | 1 => s1 | _ => s2 end%nat). split.
  - intros j Hj. destruct j as [|[|[|j]]]; [ | | | exfalso; lia ]; assumption.
  - intros j r Hj Hr. destruct j as [|[|[|j]]]; [ | | | exfalso; lia ]; [apply F0 | apply F1 | apply F2]; exact Hr.
Qed.

(* ---------------------------------------------------------------------- *)
(* (B) the nearest-eigenvector pairing is equivariant                      *)
(* ---------------------------------------------------------------------- *)
(* smallest_angle of two UNIT vectors as a function of their dot product *)
Definition fdeg (x : R) : R :=
  let ang := acos (if Rltb x (- (1)) then - (1) else if Rltb 1 x then 1 else x) * (180 / PI) in
  if Rltb 90 ang then 180 - ang else ang.

Lemma sa_unit (u w : arr NumR) : @norm3 NumR u = 1 -> @norm3 NumR w = 1 ->
  @smallest_angle NumR u w = fdeg (@dot3 NumR u w).
Proof.
  intros Hu Hw. unfold smallest_angle, clip1, fdeg. rewrite Hu, Hw. rewrite !ltb_R.
  set (d := @dot3 NumR u w). numR.
  assert (E : d / (1 * 1) = d) by field. rewrite E. reflexivity.
Qed.

Lemma fdeg_opp x : fdeg (- x) = fdeg x.
Proof.
  pose proof PI_RGT_0 as Hpi.
  unfold fdeg.
  assert (C : (if Rltb (- x) (- (1)) then - (1) else if Rltb 1 (- x) then 1 else - x)
              = - (if Rltb x (- (1)) then - (1) else if Rltb 1 x then 1 else x)).
  { destruct (Rltb (- x) (- (1))) eqn:A; destruct (Rltb x (- (1))) eqn:B; destruct (Rltb 1 (- x)) eqn:C';
    destruct (Rltb 1 x) eqn:D; bool2prop; try lra. }
  rewrite C, acos_opp.
  set (a := acos (if Rltb x (- (1)) then - (1) else if Rltb 1 x then 1 else x)).
  assert (E : (PI - a) * (180 / PI) = 180 - a * (180 / PI)) by (field; lra).
  rewrite E. set (g := a * (180 / PI)).
  destruct (Rltb 90 (180 - g)) eqn:A; destruct (Rltb 90 g) eqn:B; bool2prop; lra.
Qed.

Lemma fdeg_pm c x : pm1 c -> fdeg (c * x) = fdeg x.
Proof. intros [-> | ->]; [f_equal; ring|]. replace (- (1) * x) with (- x) by ring. apply fdeg_opp. Qed.

Lemma fdeg_0 : fdeg 0 = 90.
Proof.
  pose proof PI_RGT_0 as Hpi. unfold fdeg.
  rewrite (proj2 (Rltb_false 0 (- (1)))) by lra. rewrite (proj2 (Rltb_false 1 0)) by lra. rewrite acos_0.
  assert (E90: PI / 2 * (180 / PI) = 90) by (field; lra). rewrite E90.
  rewrite (proj2 (Rltb_false 90 90)) by lra. reflexivity.
Qed.

Lemma col_colv (E : arr NumR) j r : (r < 3)%nat -> @col NumR E j r = colv (mat3 E) j r.
Proof. intros Hr. rewrite col_entry by assumption. reflexivity. Qed.

Lemma orth_col_unit (E : arr NumR) a : orth (mat3 E) -> (a < 3)%nat -> @norm3 NumR (col E a) = 1.
Proof.
  intros H Ha. specialize (H a a Ha Ha). rewrite Nat.eqb_refl in H. unfold sum3 in H.
  rewrite norm3_R, dot3_R. rewrite !col_entry by lia. rewrite H. apply sqrt_1.
Qed.

Section Equiv.
  Variables (Q : M3) (Ed0 Ev0 Ed Ev : arr NumR) (s t : nat -> R).
  Hypothesis HQ : orth Q.
  Hypothesis HEd0 : orth (mat3 Ed0).
  Hypothesis HEv0 : orth (mat3 Ev0).
  Hypothesis HD : corot Q Ed0 Ed s.
  Hypothesis HV : corot Q Ev0 Ev t.

  Lemma dot_corot i j : (i < 3)%nat -> (j < 3)%nat ->
    @dot3 NumR (col Ed i) (col Ev j) = s i * t j * @dot3 NumR (col Ed0 i) (col Ev0 j).
  Proof using HQ HD HV.
    intros Hi Hj. destruct HD as (_ & D). destruct HV as (_ & V).
    rewrite !dot3_R. rewrite !col_entry by lia. rewrite !D, !V by lia. change (T NumR) with R.
    pose proof (rot_dot Q (colv (mat3 Ed0) i) (colv (mat3 Ev0) j) HQ) as P. unfold sum3 in P.
    unfold colv at 7 8 9 10 11 12 in P.
    transitivity (s i * t j * (rotv Q (colv (mat3 Ed0) i) 0%nat * rotv Q (colv (mat3 Ev0) j) 0%nat
                             + rotv Q (colv (mat3 Ed0) i) 1%nat * rotv Q (colv (mat3 Ev0) j) 1%nat
                             + rotv Q (colv (mat3 Ed0) i) 2%nat * rotv Q (colv (mat3 Ev0) j) 2%nat)); [ring|].
    rewrite P. reflexivity.
  Qed.

  Lemma unit_d i : (i < 3)%nat -> @norm3 NumR (col Ed i) = 1.
  Proof using HQ HEd0 HD.
    intros Hi. destruct HD as (S1 & D).
    rewrite norm3_R, dot3_R. rewrite !col_entry by lia. rewrite !D by lia. change (T NumR) with R.
    pose proof (rot_dot Q (colv (mat3 Ed0) i) (colv (mat3 Ed0) i) HQ) as P. unfold sum3 in P.
    pose proof (HEd0 i i Hi Hi) as O. rewrite Nat.eqb_refl in O. unfold sum3 in O.
    unfold colv at 7 8 9 10 11 12 in P. rewrite O in P.
    replace (_ + _ + _) with (s i * s i * (rotv Q (colv (mat3 Ed0) i) 0%nat * rotv Q (colv (mat3 Ed0) i) 0%nat
                             + rotv Q (colv (mat3 Ed0) i) 1%nat * rotv Q (colv (mat3 Ed0) i) 1%nat
                             + rotv Q (colv (mat3 Ed0) i) 2%nat * rotv Q (colv (mat3 Ed0) i) 2%nat)) by ring.
    rewrite P, (pm1_sq _ (S1 i Hi)), Rmult_1_r. apply sqrt_1.
  Qed.

  Lemma unit_v j : (j < 3)%nat -> @norm3 NumR (col Ev j) = 1.
  Proof using HQ HEv0 HV.
    intros Hi. destruct HV as (S1 & D).
    rewrite norm3_R, dot3_R. rewrite !col_entry by lia. rewrite !D by lia. change (T NumR) with R.
    pose proof (rot_dot Q (colv (mat3 Ev0) j) (colv (mat3 Ev0) j) HQ) as P. unfold sum3 in P.
    pose proof (HEv0 j j Hi Hi) as O. rewrite Nat.eqb_refl in O. unfold sum3 in O.
    unfold colv at 7 8 9 10 11 12 in P. rewrite O in P.
    replace (_ + _ + _) with (t j * t j * (rotv Q (colv (mat3 Ev0) j) 0%nat * rotv Q (colv (mat3 Ev0) j) 0%nat
                             + rotv Q (colv (mat3 Ev0) j) 1%nat * rotv Q (colv (mat3 Ev0) j) 1%nat
                             + rotv Q (colv (mat3 Ev0) j) 2%nat * rotv Q (colv (mat3 Ev0) j) 2%nat)) by ring.
    rewrite P, (pm1_sq _ (S1 j Hi)), Rmult_1_r. apply sqrt_1.
  Qed.

  Lemma pm1_mul a b : pm1 a -> pm1 b -> pm1 (a * b).
  Proof. intros [-> | ->] [-> | ->]; unfold pm1; lra. Qed.

  Lemma sa_corot i j : (i < 3)%nat -> (j < 3)%nat ->
    @smallest_angle NumR (col Ed i) (col Ev j) = @smallest_angle NumR (col Ed0 i) (col Ev0 j).
  Proof using HQ HEd0 HEv0 HD HV.
    intros Hi Hj.
    rewrite (sa_unit _ _ (unit_d i Hi) (unit_v j Hj)).
    rewrite (sa_unit _ _ (orth_col_unit Ed0 i HEd0 Hi) (orth_col_unit Ev0 j HEv0 Hj)).
    rewrite (dot_corot i j Hi Hj). apply fdeg_pm, pm1_mul; [apply HD | apply HV]; assumption.
  Qed.

  (* the state of the inner loop in the two runs: same angle, same column, weight times s_i t_jc *)
  Definition st_rel (i : nat) (st0 st : R * nat * R) : Prop :=
    let '(a0, j0, w0) := st0 in let '(a, j, w) := st in
    a = a0 /\ j = j0 /\ (j0 < 3)%nat /\ w = s i * t j0 * w0 /\ a0 <= 10.

  Lemma step_rel i j st0 st : (i < 3)%nat -> (j < 3)%nat -> st_rel i st0 st ->
    st_rel i (@pair_step NumR Ed0 Ev0 i st0 j) (@pair_step NumR Ed Ev i st j).
  Proof using HQ HEd0 HEv0 HD HV.
    intros Hi Hj. destruct st0 as [[a0 j0] w0]. destruct st as [[a jc] w].
    intros (-> & -> & Hj0 & -> & Ha). unfold pair_step.
    rewrite (sa_corot i j Hi Hj). rewrite !ltb_R, !eqb_R.
    set (ang := @smallest_angle NumR (col Ed0 i) (col Ev0 j)).
    destruct (Rltb ang a0) eqn:B; [|repeat split; assumption || reflexivity].
    apply Rltb_true in B.
    set (d0 := @dot3 NumR (col Ed0 i) (col Ev0 j)).
    assert (Hd0 : d0 <> 0).
    { intros Z. unfold ang in B.
      rewrite (sa_unit _ _ (orth_col_unit Ed0 i HEd0 Hi) (orth_col_unit Ev0 j HEv0 Hj)) in B.
      fold d0 in B. rewrite Z, fdeg_0 in B. lra. }
    rewrite (dot_corot i j Hi Hj). fold d0.
    assert (Hp : pm1 (s i * t j)) by (apply pm1_mul; [apply HD | apply HV]; assumption).
    change (@zero NumR) with 0. change (@one NumR) with 1. change (@opp NumR 1) with (- (1)).
    unfold ofnat. change (@ofZ NumR (Z.of_nat j)) with (IZR (Z.of_nat j)).
    change (@mul NumR) with Rmult. change (@neqb NumR) with Reqb. change (@nltb NumR) with Rltb.
    rewrite (proj2 (Reqb_false d0 0)) by exact Hd0.
    rewrite (proj2 (Reqb_false (s i * t j * d0) 0))
      by (destruct Hp as [-> | ->]; lra).
    repeat split; try assumption; try reflexivity; try lra.
    destruct Hp as [E | E]; rewrite E;
      destruct (Rltb 0 d0) eqn:P1; bool2prop.
    - rewrite (proj2 (Rltb_true 0 (1 * d0))) by lra. ring.
    - rewrite (proj2 (Rltb_false 0 (1 * d0))) by lra. ring.
    - rewrite (proj2 (Rltb_false 0 (- (1) * d0))) by lra. ring.
    - rewrite (proj2 (Rltb_true 0 (- (1) * d0))) by lra. ring.
  Qed.

  Lemma sccs_fin_corot (d0 v0 d v : arr NumR) (sg tg w0 : R) : pm1 sg -> pm1 tg ->
    (forall r, (r < 3)%nat -> d r = sg * rotv Q d0 r) ->
    (forall r, (r < 3)%nat -> v r = tg * rotv Q v0 r) ->
    forall r, (r < 3)%nat -> sccs_fin d v (sg * tg * w0) r = sg * rotv Q (sccs_fin d0 v0 w0) r.
  Proof using HQ.
    intros Hs Ht Hd Hv.
    set (u0 := fun b : nat => (d0 b + w0 * v0 b) / 2).
    assert (U : forall r, (r < 3)%nat -> (d r + sg * tg * w0 * v r) / 2 = sg * rotv Q u0 r).
    { intros r Hr. rewrite (Hd r Hr), (Hv r Hr). unfold rotv, sum3, u0.
      pose proof (pm1_sq _ Ht) as T2.
      transitivity (sg * ((Q r 0%nat * d0 0%nat + Q r 1%nat * d0 1%nat + Q r 2%nat * d0 2%nat)
                          + (tg * tg) * w0 * (Q r 0%nat * v0 0%nat + Q r 1%nat * v0 1%nat + Q r 2%nat * v0 2%nat)) / 2); [field|].
      rewrite T2. field. }
    assert (N : sqrt (sg * rotv Q u0 0%nat * (sg * rotv Q u0 0%nat) + sg * rotv Q u0 1%nat * (sg * rotv Q u0 1%nat)
                      + sg * rotv Q u0 2%nat * (sg * rotv Q u0 2%nat))
                = sqrt (u0 0%nat * u0 0%nat + u0 1%nat * u0 1%nat + u0 2%nat * u0 2%nat)).
    { f_equal. pose proof (rot_dot Q u0 u0 HQ) as P. unfold sum3 in P. rewrite <- P.
      pose proof (pm1_sq _ Hs) as S2.
      transitivity (sg * sg * (rotv Q u0 0%nat * rotv Q u0 0%nat + rotv Q u0 1%nat * rotv Q u0 1%nat
                               + rotv Q u0 2%nat * rotv Q u0 2%nat)); [ring|]. rewrite S2. ring. }
    intros r Hr. unfold sccs_fin. cbv zeta. cbn [mk_arr List.nth]. change (T NumR) with R in *.
    rewrite (U 0%nat), (U 1%nat), (U 2%nat) by lia. rewrite N.
    fold (u0 0%nat). fold (u0 1%nat). fold (u0 2%nat).
    set (n0 := sqrt (u0 0%nat * u0 0%nat + u0 1%nat * u0 1%nat + u0 2%nat * u0 2%nat)).
    unfold rotv at 4. unfold sum3.
    destruct r as [|[|[|r]]]; [ | | | exfalso; lia ]; cbn [List.nth]; unfold rotv, sum3, Rdiv;
      cbn [mk_arr List.nth]; ring.
  Qed.

  (* column i of the SCCS built in the new frame = s_i Rq . (column i built in the old frame) *)
  Theorem sccs_col_corot i : (i < 3)%nat ->
    forall r, (r < 3)%nat -> @sccs_col NumR Ed Ev i r = s i * rotv Q (@sccs_col NumR Ed0 Ev0 i) r.
  Proof using HQ HEd0 HEv0 HD HV.
    intros Hi.
    assert (R0 : st_rel i (10, 0%nat, 0) (10, 0%nat, 0)).
    { repeat split; try lia; try lra; try ring. }
    pose proof (step_rel i 0 _ _ Hi ltac:(lia) R0) as R1.
    pose proof (step_rel i 1 _ _ Hi ltac:(lia) R1) as R2.
    pose proof (step_rel i 2 _ _ Hi ltac:(lia) R2) as R3.
    destruct (@pair_step NumR Ed0 Ev0 i (@pair_step NumR Ed0 Ev0 i (@pair_step NumR Ed0 Ev0 i (10, 0%nat, 0) 0%nat) 1%nat) 2%nat)
      as [[a0 j0] w0] eqn:F0.
    destruct (@pair_step NumR Ed Ev i (@pair_step NumR Ed Ev i (@pair_step NumR Ed Ev i (10, 0%nat, 0) 0%nat) 1%nat) 2%nat)
      as [[a jc] w] eqn:F.
    destruct R3 as (-> & -> & Hj0 & -> & _).
    rewrite (sccs_col_fin Ed Ev i a0 j0 (s i * t j0 * w0)) by (cbn [fold_left]; exact F).
    rewrite (sccs_col_fin Ed0 Ev0 i a0 j0 w0) by (cbn [fold_left]; exact F0).
    apply sccs_fin_corot.
    - apply HD, Hi.
    - apply HV, Hj0.
    - intros r Hr. rewrite col_entry by assumption. destruct HD as (_ & D). rewrite (D i r Hi Hr).
      f_equal; unfold rotv; apply sum3_ext; intros b Hb; rewrite col_entry by assumption; reflexivity.
    - intros r Hr. rewrite col_entry by assumption. destruct HV as (_ & V). rewrite (V j0 r Hj0 Hr).
      f_equal; unfold rotv; apply sum3_ext; intros b Hb; rewrite col_entry by assumption; reflexivity.
  Qed.
End Equiv.

(* ---------------------------------------------------------------------- *)
(* (C) the candidate frames and the tensors rotated into them              *)
(* ---------------------------------------------------------------------- *)
Lemma sccs_rotation_entry (Ed Ev : arr NumR) i r a : (r < 3)%nat -> (a < 3)%nat ->
  mat3 (@sccs_rotation NumR Ed Ev i) r a = @sccs_col NumR Ed Ev ((i + r) mod 3) a.
Proof.
  intros Hr Ha. unfold sccs_rotation, mat3.
  destruct r as [|[|[|r]]]; [ | | | exfalso; lia ];
  (destruct a as [|[|[|a]]]; [ | | | exfalso; lia ]);
  cbn [mk_arr List.nth Nat.mul Nat.add]; rewrite ?Nat.add_0_r; reflexivity.
Qed.

Section Candidate.
  Variables (Q : M3) (Ed0 Ev0 Ed Ev : arr NumR) (s t : nat -> R) (vm0 vm : arr NumR).
  Hypothesis HQ : orth Q.
  Hypothesis HEd0 : orth (mat3 Ed0).
  Hypothesis HEv0 : orth (mat3 Ev0).
  Hypothesis HD : corot Q Ed0 Ed s.
  Hypothesis HV : corot Q Ev0 Ev t.
  Hypothesis HT : eq4b (t4 (k_voigt_to_elastic_tensor vm)) (rot4 (t4 (k_voigt_to_elastic_tensor vm0)) Q).

  Variable i : nat.
  Let e (r : nat) : R := s ((i + r) mod 3).
  Let Rt := @sccs_rotation NumR Ed Ev i.
  Let Rt0 := @sccs_rotation NumR Ed0 Ev0 i.

  Lemma e_pm3 : pm3 e.
  Proof using HD.
    destruct HD as (S1 & _). unfold pm3, e. repeat split; apply S1, Nat.mod_upper_bound; lia.
  Qed.

  Lemma frames_related : eq2b (mm (mat3 Rt) Q) (mm (dg e) (mat3 Rt0)).
  Proof using HQ HEd0 HEv0 HD HV.
    intros r c Hr Hc.
    assert (Hm : ((i + r) mod 3 < 3)%nat) by (apply Nat.mod_upper_bound; lia).
    unfold mm, sum3, Rt, Rt0. rewrite !sccs_rotation_entry by lia.
    rewrite !(sccs_col_corot Q Ed0 Ev0 Ed Ev s t HQ HEd0 HEv0 HD HV _ Hm) by lia.
    fold (e r). unfold rotv, sum3.
    pose proof (HQ 0 c ltac:(lia) Hc)%nat as O0. pose proof (HQ 1 c ltac:(lia) Hc)%nat as O1.
    pose proof (HQ 2 c ltac:(lia) Hc)%nat as O2. unfold sum3 in O0, O1, O2.
    set (u := @sccs_col NumR Ed0 Ev0 ((i + r) mod 3)).
    transitivity (e r * (u 0%nat * (Q 0%nat 0%nat * Q 0%nat c + Q 1%nat 0%nat * Q 1%nat c + Q 2%nat 0%nat * Q 2%nat c)
                       + u 1%nat * (Q 0%nat 1%nat * Q 0%nat c + Q 1%nat 1%nat * Q 1%nat c + Q 2%nat 1%nat * Q 2%nat c)
                       + u 2%nat * (Q 0%nat 2%nat * Q 0%nat c + Q 1%nat 2%nat * Q 1%nat c + Q 2%nat 2%nat * Q 2%nat c))); [ring|].
    rewrite O0, O1, O2. unfold dg. subst u.
    destruct r as [|[|[|r]]]; [ | | | exfalso; lia ]; (destruct c as [|[|[|c]]]; [ | | | exfalso; lia ]);
      cbn [Nat.eqb]; rewrite ?sccs_rotation_entry by lia; ring.
  Qed.

  Lemma tensors_related :
    eq4b (t4 (@rotate4 NumR (k_voigt_to_elastic_tensor vm) Rt))
         (flip4 e (t4 (@rotate4 NumR (k_voigt_to_elastic_tensor vm0) Rt0))).
  Proof using HQ HEd0 HEv0 HD HV HT.
    eapply eq4b_trans; [apply rotate4_is_k_rotate|].
    eapply eq4b_trans; [apply rotate_is_mode_products|].
    eapply eq4b_trans; [apply rot4_extb, HT|].
    eapply eq4b_trans; [apply eq4_eq4b, rot4_compose|].
    eapply eq4b_trans; [apply rot4_extR, frames_related|].
    eapply eq4b_trans; [apply eq4b_sym, eq4_eq4b, rot4_compose|].
    eapply eq4b_trans; [|apply rot4_dg].
    apply rot4_extb. apply eq4b_sym.
    eapply eq4b_trans; [apply rotate4_is_k_rotate|]. apply rotate_is_mode_products.
  Qed.

  Lemma cand_related K G :
    cand (k_voigt_matrix_to_vector (k_elastic_tensor_to_voigt (@rotate4 NumR (k_voigt_to_elastic_tensor vm) Rt)))
         (@iso_vector NumR K G)
    = cand (k_voigt_matrix_to_vector (k_elastic_tensor_to_voigt (@rotate4 NumR (k_voigt_to_elastic_tensor vm0) Rt0)))
           (@iso_vector NumR K G).
  Proof using HQ HEd0 HEv0 HD HV HT.
    apply (cand_flip e _ _ K G e_pm3). apply rv_flip; [apply e_pm3 | apply tensors_related].
  Qed.

  Lemma frame_parts_related K G :
    @frame_parts NumR vm (@iso_vector NumR K G) Rt = @frame_parts NumR vm0 (@iso_vector NumR K G) Rt0.
  Proof using HQ HEd0 HEv0 HD HV HT.
    destruct (frame_parts_ok vm (@iso_vector NumR K G) Rt) as (d & p & E).
    destruct (frame_parts_ok vm0 (@iso_vector NumR K G) Rt0) as (d0 & p0 & E0).
    destruct p as [[[[a1 a2] a3] a4] a5]. destruct p0 as [[[[b1 b2] b3] b4] b5].
    pose proof (frame_parts_cand _ _ _ _ _ _ _ _ _ E) as C.
    pose proof (frame_parts_cand _ _ _ _ _ _ _ _ _ E0) as C0.
    rewrite (cand_related K G) in C. rewrite <- C0 in C. rewrite E, E0. inversion C; subst; reflexivity.
  Qed.

  (* the axis candidate i would report *)
  Lemma axis_related a : (a < 3)%nat ->
    Rt (6 + a)%nat = e 2%nat * sum3 (fun b => Q a b * Rt0 (6 + b)%nat).
  Proof using HQ HEd0 HEv0 HD HV.
    intros Ha.
    assert (Hm : ((i + 2) mod 3 < 3)%nat) by (apply Nat.mod_upper_bound; lia).
    pose proof (sccs_rotation_entry Ed Ev i 2 a ltac:(lia) Ha) as A. unfold mat3 in A.
    replace (3 * 2 + a)%nat with (6 + a)%nat in A by lia. fold Rt in A. rewrite A.
    rewrite (sccs_col_corot Q Ed0 Ev0 Ed Ev s t HQ HEd0 HEv0 HD HV _ Hm a Ha). fold (e 2%nat).
    f_equal; unfold rotv; apply sum3_ext; intros b Hb;
    pose proof (sccs_rotation_entry Ed0 Ev0 i 2 b ltac:(lia) Hb) as B; unfold mat3 in B;
    replace (3 * 2 + b)%nat with (6 + b)%nat in B by lia; fold Rt0 in B; rewrite B; reflexivity.
  Qed.
End Candidate.

(* ---------------------------------------------------------------------- *)
(* (E) the whole function                                                  *)
(* ---------------------------------------------------------------------- *)
Section General.
  Variables (M0 Ed0 Ev0 M Ed Ev Rq : arr NumR) (mud muv : nat -> R).
  Let vm0 := k_upper_tri_to_symmetric_6 M0.
  Let vm := k_upper_tri_to_symmetric_6 M.
  Let C0 := t4 (k_voigt_to_elastic_tensor vm0).
  (* the same tensor in two frames *)
  Hypothesis Hs0 : sym6 vm0.
  Hypothesis Hs : sym6 vm.
  Hypothesis HR : orth (mat3 Rq).
  Hypothesis HT : eq4b (t4 (k_voigt_to_elastic_tensor vm)) (rot4 C0 (mat3 Rq)).
  (* simple spectra (the eigenvalues are the same in both frames) *)
  Hypothesis Hdd : distinct3 mud.
  Hypothesis Hdv : distinct3 muv.
  (* the eigh oracle: orthonormal columns, column j an eigenvector for the j-th eigenvalue -- in BOTH frames
     (eigh lists the eigenvalues in ascending order, and they do not depend on the frame) *)
  Hypothesis HEd0 : orth (mat3 Ed0).
  Hypothesis HEd0e : eigcols (mat3 (fst (k_voigt_decompose vm0))) (mat3 Ed0) mud.
  Hypothesis HEv0 : orth (mat3 Ev0).
  Hypothesis HEv0e : eigcols (mat3 (snd (k_voigt_decompose vm0))) (mat3 Ev0) muv.
  Hypothesis HEd : orth (mat3 Ed).
  Hypothesis HEde : eigcols (mat3 (fst (k_voigt_decompose vm))) (mat3 Ed) mud.
  Hypothesis HEv : orth (mat3 Ev).
  Hypothesis HEve : eigcols (mat3 (snd (k_voigt_decompose vm))) (mat3 Ev) muv.

  Lemma oracle_corot : (exists s, corot (mat3 Rq) Ed0 Ed s) /\ (exists t, corot (mat3 Rq) Ev0 Ev t).
  Proof using Hs0 Hs HR HT Hdd Hdv HEd0 HEd0e HEv0 HEv0e HEd HEde HEv HEve.
    destruct (contractions vm Hs) as (CD & CV). destruct (contractions vm0 Hs0) as (CD0 & CV0).
    destruct (voigt_decompose_symmetric vm) as (SD & SV).
    split.
    - apply (eig_corot (mat3 (fst (k_voigt_decompose vm0))) (mat3 (fst (k_voigt_decompose vm))) Ed0 Ed (mat3 Rq) mud);
        try assumption.
      intros a b Ha Hb. rewrite (CD a b Ha Hb), (dil4_extb _ _ HT a b Ha Hb), (dil4_rot4 _ _ HR).
      symmetry. apply (mm_extb_mid _ _ _ _ CD0 a b Ha Hb).
    - apply (eig_corot (mat3 (snd (k_voigt_decompose vm0))) (mat3 (snd (k_voigt_decompose vm))) Ev0 Ev (mat3 Rq) muv);
        try assumption.
      intros a b Ha Hb. rewrite (CV a b Ha Hb), (dev4_extb _ _ HT a b Ha Hb), (dev4_rot4 _ _ HR).
      symmetry. apply (mm_extb_mid _ _ _ _ CV0 a b Ha Hb).
  Qed.

  Theorem ec1_general_frame_independent out0 :
    @elasticity_components1 NumR M0 Ed0 Ev0 = Ok out0 ->
    exists out, @elasticity_components1 NumR M Ed Ev = Ok out /\
      (forall n, (n < 8)%nat -> List.nth n out 0 = List.nth n out0 0) /\
      exists sgn, pm1 sgn /\
        forall a, (a < 3)%nat ->
          List.nth (8 + a) out 0 = sgn * sum3 (fun b => mat3 Rq a b * List.nth (8 + b) out0 0).
  Proof using Hs0 Hs HR HT Hdd Hdv HEd0 HEd0e HEv0 HEv0e HEd HEde HEv HEve.
    destruct oracle_corot as ((s & HD) & (t & HV)).
    destruct (KG_tensor_invariant vm vm0 (mat3 Rq) Hs Hs0 HR HT) as (EK & EG).
    pose proof (aniso_tensor_invariant vm vm0 (mat3 Rq) Hs Hs0 HR HT) as EA.
    assert (EN : @norm21 NumR (k_voigt_matrix_to_vector vm) = @norm21 NumR (k_voigt_matrix_to_vector vm0)).
    { rewrite !norm21_sumsq. f_equal. apply (sumsq_tensor_invariant vm vm0 (mat3 Rq) Hs Hs0 HR HT). }
    assert (FP : forall i, ec1_fp vm Ed Ev i = ec1_fp vm0 Ed0 Ev0 i).
    { intros i. unfold ec1_fp. rewrite EK, EG.
      apply (frame_parts_related (mat3 Rq) Ed0 Ev0 Ed Ev s t vm0 vm HR HEd0 HEv0 HD HV HT i). }
    assert (AX : forall i a, (a < 3)%nat ->
              @sccs_rotation NumR Ed Ev i (6 + a)%nat
              = s ((i + 2) mod 3) * sum3 (fun b => mat3 Rq a b * @sccs_rotation NumR Ed0 Ev0 i (6 + b)%nat)).
    { intros i a Ha. apply (axis_related (mat3 Rq) Ed0 Ev0 Ed Ev s t HR HEd0 HEv0 HD HV i a Ha). }
    assert (SG : forall i, pm1 (s ((i + 2) mod 3))).
    { intros i. apply HD, Nat.mod_upper_bound. lia. }
    pose proof (ec1_as_select M0 Ed0 Ev0) as S0. pose proof (ec1_as_select M Ed Ev) as S1.
    cbv zeta in S0, S1. fold vm0 in S0. fold vm in S1.
    rewrite S0. rewrite S1. clear S0 S1.
    rewrite EA, EN, EK, EG.
    cbn [fold_left]. unfold sel_step. rewrite !FP.
    set (nx := @norm21 NumR (k_voigt_matrix_to_vector vm0)).
    assert (PAY : forall i d tr mo ot te he,
      let l := ec1_pay vm Ed Ev i (d, (tr, mo, ot, te, he)) in
      let l0 := ec1_pay vm0 Ed0 Ev0 i (d, (tr, mo, ot, te, he)) in
      (forall n, (n < 5)%nat -> List.nth n l 0 = List.nth n l0 0) /\
      (forall a, (a < 3)%nat -> List.nth (5 + a) l 0
                   = s ((i + 2) mod 3) * sum3 (fun b => mat3 Rq a b * List.nth (5 + b) l0 0))).
    { intros i d tr mo ot te he. unfold ec1_pay. rewrite EN. fold nx. cbv zeta. split.
      - intros n Hn. do 5 (destruct n as [|n]; [reflexivity|]). exfalso; lia.
      - intros a Ha. pose proof (AX i a Ha) as A. unfold sum3 in *. 
        destruct a as [|[|[|a]]]; [ | | | exfalso; lia ]; cbn [Nat.add List.nth] in *; exact A. }
    destruct (ec1_fp vm0 Ed0 Ev0 0%nat) as [[d0 [[[[a1 a2] a3] a4] a5]]|e0]; [|discriminate].
    destruct (ec1_fp vm0 Ed0 Ev0 1%nat) as [[d1 [[[[b1 b2] b3] b4] b5]]|e1];
      [|destruct (Rltb d0 nx); discriminate].
    destruct (ec1_fp vm0 Ed0 Ev0 2%nat) as [[d2 [[[[c1 c2] c3] c4] c5]]|e2];
      [|destruct (Rltb d0 nx); [destruct (Rltb d1 d0) | destruct (Rltb d1 nx)]; discriminate].
    assert (FIN : forall i d tr mo ot te he K G an,
      Ok (K :: G :: an :: ec1_pay vm0 Ed0 Ev0 i (d, (tr, mo, ot, te, he))) = Ok out0 ->
      exists out, Ok (K :: G :: an :: ec1_pay vm Ed Ev i (d, (tr, mo, ot, te, he))) = Ok out /\
        (forall n, (n < 8)%nat -> List.nth n out 0 = List.nth n out0 0) /\
        exists sgn, pm1 sgn /\ forall a, (a < 3)%nat ->
          List.nth (8 + a) out 0 = sgn * sum3 (fun b => mat3 Rq a b * List.nth (8 + b) out0 0)).
    { intros i d tr mo ot te he K G an H. apply ok_inj in H. subst out0.
      destruct (PAY i d tr mo ot te he) as (P5 & PA). cbv zeta in P5, PA.
      eexists. split; [reflexivity|]. split.
      - intros n Hn. do 3 (destruct n as [|n]; [reflexivity|]). cbn [List.nth]. apply P5. lia.
      - exists (s ((i + 2) mod 3)). split; [apply SG|]. intros a Ha.
        change (8 + a)%nat with (S (S (S (5 + a)))). cbn [List.nth]. rewrite (PA a Ha).
        f_equal. }
    destruct (Rltb d0 nx).
    - destruct (Rltb d1 d0).
      + destruct (Rltb d2 d1); intros H; eapply FIN; exact H.
      + destruct (Rltb d2 d0); intros H; eapply FIN; exact H.
    - destruct (Rltb d1 nx).
      + destruct (Rltb d2 d1); intros H; eapply FIN; exact H.
      + destruct (Rltb d2 nx); intros H; [eapply FIN; exact H | discriminate].
  Qed.
End General.

(* non-vacuity: every hypothesis of ec1_general_frame_independent holds for diag(1,2,4,1,1,1) with identity
   oracles in the identity frame (take M = M0, Ed = Ed0 = Ev = Ev0 = Rq = I) *)
Lemma general_nonvacuous_proof :
  let M0 := M_ortho_example2 in
  let vm0 := k_upper_tri_to_symmetric_6 M0 in
  let I3 := @eye3 NumR in
  exists mud muv out0,
    sym6 vm0 /\ orth (mat3 I3) /\
    eq4b (t4 (k_voigt_to_elastic_tensor vm0)) (rot4 (t4 (k_voigt_to_elastic_tensor vm0)) (mat3 I3)) /\
    distinct3 mud /\ distinct3 muv /\
    eigcols (mat3 (fst (k_voigt_decompose vm0))) (mat3 I3) mud /\
    eigcols (mat3 (snd (k_voigt_decompose vm0))) (mat3 I3) muv /\
    @elasticity_components1 NumR M0 I3 I3 = Ok out0.
Proof.
  intros M0 vm0 I3.
  destruct C12_run_nonvacuous_proof as (mud & muv & out & Hs & _ & Hdd & Hdv & _ & HI & HE & HEd & HEv & Hout).
  cbv zeta in *. fold M0 vm0 I3 in Hs, Hdd, Hdv, HI, HE, HEd, HEv, Hout.
  destruct (contractions vm0 Hs) as (CD & CV).
  assert (DI : forall (S : M3) lam, eigcols S (mat3 I3) lam -> forall j, (j < 3)%nat -> lam j = S j j).
  { intros S lam H j Hj. pose proof (H j j Hj Hj) as E. unfold mv, colv, sum3 in E.
    rewrite !(mat3_eye3 _ _) in E by lia. unfold id3 in E.
    destruct j as [|[|[|j]]]; [ | | | exfalso; lia ]; cbn [Nat.eqb] in E; lra. }
  exists mud, muv, out. repeat (split; [assumption|]).
  split.
  { eapply distinct3_ext; [|exact Hdd]. intros k Hk. rewrite (DI _ _ HEd k Hk). apply CD; assumption. }
  split.
  { eapply distinct3_ext; [|exact Hdv]. intros k Hk. rewrite (DI _ _ HEv k Hk). apply CV; assumption. }
  repeat (split; [assumption|]). assumption.
Qed.
