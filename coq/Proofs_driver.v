(* Proofs_driver.v -- theorems about the driver around the integrator (Model_minerals: lsoda_problem_of,
   y_start, solver_loop / update_steps, bulk_update / bulk_y0, init_default).  These definitions are tied
   to the source by the instance lemmas of Inst_minerals_drv.v (tie T). *)
From Coq Require Import Reals ZArith List Bool Lra Lia Permutation.
From PV Require Import Num NumR Model_core Model_minerals Proofs_core Proofs_minerals Proofs_rhs.
Import ListNotations.
Open Scope R_scope.

Notation problem := (@lsoda_problem NumR).
Notation hist := (@history NumR).

(* ====================== the problem instance handed to LSODA (C05, C06, C01) ====================== *)
(* time rescaling t -> t / k of a problem instance: every argument with the dimension of time is divided by
   k, every dimensionless one (start vector, absolute and relative tolerances -- they are tolerances on the
   dimensionless state) is kept *)
Definition rescale_problem (k : R) (P : problem) : problem :=
  @Build_lsoda_problem NumR (lp_t0 P / k) (lp_y0 P) (lp_tb P / k) (lp_atol P) (lp_rtol P) (lp_first P / k).

Lemma Rabs_div_pos (x k : R) : 0 < k -> Rabs (x / k) = Rabs x / k.
Proof.
  intros Hk. unfold Rdiv. rewrite Rabs_mult. f_equal. apply Rabs_pos_eq. left. apply Rinv_0_lt_compat. exact Hk.
Qed.

Theorem problem_rescales (Fd : RL) (s : @snapshot NumR) (t0 t1 k : R) : 0 < k ->
  @lsoda_problem_of NumR Fd s (t0 / k) (t1 / k) = rescale_problem k (@lsoda_problem_of NumR Fd s t0 t1).
Proof.
  intros Hk. unfold lsoda_problem_of, rescale_problem. cbn [lp_t0 lp_y0 lp_tb lp_atol lp_rtol lp_first].
  f_equal. numR. replace (t1 / k - t0 / k) with ((t1 - t0) / k) by (field; lra).
  rewrite Rabs_div_pos by exact Hk. field. lra.
Qed.

(* the start vector and the tolerances do not depend on the times at all *)
Theorem problem_time_free (Fd : RL) (s : @snapshot NumR) (t0 t1 t0' t1' : R) :
  let P := @lsoda_problem_of NumR Fd s t0 t1 in let P' := @lsoda_problem_of NumR Fd s t0' t1' in
  lp_y0 P = lp_y0 P' /\ lp_atol P = lp_atol P' /\ lp_rtol P = lp_rtol P'.
Proof. cbv zeta. repeat split; reflexivity. Qed.

(* the first step is a fixed fraction of the time span: first_step / |t_bound - t0| = fl(0.1) *)
Theorem problem_first_step (Fd : RL) (s : @snapshot NumR) (t0 t1 : R) :
  let P := @lsoda_problem_of NumR Fd s t0 t1 in
  lp_first P = Rabs (lp_tb P - lp_t0 P) * (3602879701896397 / 36028797018963968).
Proof. cbv zeta. unfold lsoda_problem_of. cbn [lp_t0 lp_tb lp_first]. unfold c_1em1. numR. reflexivity. Qed.

(* the arguments satisfy what scipy's LSODA demands of them (it raises ValueError otherwise): for a
   non-empty time span 0 < first_step <= |t_bound - t0|; rtol > 0; every atol component > 0 *)
Theorem problem_well_formed (Fd : RL) (s : @snapshot NumR) (t0 t1 : R) : t0 <> t1 ->
  let P := @lsoda_problem_of NumR Fd s t0 t1 in
  0 < lp_first P <= Rabs (lp_tb P - lp_t0 P) /\ 0 < lp_rtol P /\ Forall (fun a => 0 < a) (lp_atol P)
  /\ length (lp_atol P) = length (lp_y0 P).
Proof.
  intros Hne. cbv zeta. unfold lsoda_problem_of. cbn [lp_t0 lp_y0 lp_tb lp_atol lp_rtol lp_first].
  unfold c_1em1, c_1em6, c_1em4. numR.
  assert (Hp : 0 < Rabs (t1 - t0)) by (apply Rabs_pos_lt; lra).
  repeat split.
  - nra.
  - nra.
  - lra.
  - apply Forall_forall. intros a Ha. apply in_map_iff in Ha as [v [<- _]].
    pose proof (Rabs_pos (v * (4722366482869645 / 4722366482869645213696))). lra.
  - apply map_length.
Qed.

(* the k-scaled history: velocity gradient k L(k t) on [t0/k, t1/k].  The problem instance the code builds for
   it is the time rescaling of the unscaled one, and the vector field it integrates is k times the unscaled
   field (all three blocks; strain-rate scale k s by homogeneity of the eigenvalue oracle) *)
Theorem problem_instance_rescales :
  forall (regime ph fb : Z) (n : nat) (ass : list Z) (frs Sd : RL) (p nn lam M : R)
         (Fd : RL) (s0 : @snapshot NumR) (t0 t1 k : R) (L : RL) (sc : R) (y : RL),
  0 < k -> length L = 9%nat ->
  @lsoda_problem_of NumR Fd s0 (t0 / k) (t1 / k) = rescale_problem k (@lsoda_problem_of NumR Fd s0 t0 t1)
  /\ @rhs NumR regime ph fb n ass frs (map (Rmult k) L) (k * sc) Sd p nn lam M y
     = res_map (map (Rmult k)) (@rhs NumR regime ph fb n ass frs L sc Sd p nn lam M y).
Proof.
  intros. split; [apply problem_rescales; assumption | apply rhs_scaling; [assumption | lra]].
Qed.

(* ---- the start vector: F block = the caller's F, texture blocks = the last stored snapshot ---- *)
Lemma y_start_length (Fd : RL) (s : @snapshot NumR) n : length Fd = 9%nat -> valid_snapshot n s ->
  length (@y_start NumR Fd s) = (9 + 10 * n)%nat.
Proof.
  intros HF (Ho & Hg & Hf & _). unfold y_start. change (T NumR) with R in *. rewrite !app_length, HF, Hf.
  rewrite length_concat9 by (eapply Forall_impl; [|exact Hg]; intros c [Hc _]; exact Hc).
  change (T NumR) with R in *. rewrite Ho. lia.
Qed.

Lemma concat_len9 (s : @snapshot NumR) n : valid_snapshot n s -> length (concat (sn_o s)) = (9 * n)%nat.
Proof.
  intros (Ho & Hg & _). rewrite length_concat9 by (eapply Forall_impl; [|exact Hg]; intros c [Hc _]; exact Hc).
  change (T NumR) with R in *. rewrite Ho. reflexivity.
Qed.

Lemma chunks9_concat' (ls : list RL) : Forall (fun c => length c = 9%nat) ls ->
  @chunks9 NumR (concat ls) (length ls) = ls.
Proof.
  induction 1 as [|c ls Hc Hls IH]; [reflexivity|]. cbn [length concat chunks9].
  rewrite firstn_app_exact by exact Hc. rewrite skipn_app_exact by exact Hc. rewrite IH. reflexivity.
Qed.

(* extract_vars of the start vector gives back exactly the caller's F and the last stored snapshot: the
   integration starts AT the stored texture (the clips and the normalisation are the identity on a valid one) *)
Theorem start_is_last_snapshot (n : nat) (Fd : RL) (s : @snapshot NumR) :
  length Fd = 9%nat -> valid_snapshot n s ->
  let y0 := @y_start NumR Fd s in
  @ev_F NumR y0 = Fd /\ @chunks9 NumR (@ev_o NumR y0 n) n = sn_o s /\ @ev_f NumR y0 n = sn_f s.
Proof.
  intros HF Hv. pose proof (concat_len9 s n Hv) as Hc. destruct Hv as (Ho & Hg & Hf & Hnn & Hsum).
  cbv zeta. unfold y_start. repeat split.
  - unfold ev_F. apply parts_F. exact HF.
  - unfold ev_o. rewrite parts_O by assumption.
    rewrite (map_id_on (@clip11 NumR) in11).
    + change (T NumR) with R in *. rewrite <- Ho. apply chunks9_concat'. eapply Forall_impl; [|exact Hg]. intros c [Hc' _]; exact Hc'.
    + intros x Hx. apply clip11_id. exact Hx.
    + apply Forall_concat. eapply Forall_impl; [|exact Hg]. intros c [_ Hc']; exact Hc'.
  - unfold ev_f. cbv zeta. rewrite parts_f by assumption.
    rewrite (map_id_on (@clip0 NumR) nonneg).
    + rewrite nsum_R, Hsum. rewrite <- (map_id (sn_f s)) at 2. apply map_ext. intros x. numR. field.
    + intros x Hx. apply clip0_id. exact Hx.
    + exact Hnn.
Qed.

(* the F block of the start vector is the caller's F (no validity of the snapshot needed) *)
Theorem y_start_F (Fd : RL) (s : @snapshot NumR) : length Fd = 9%nat -> @ev_F NumR (@y_start NumR Fd s) = Fd.
Proof. intros HF. unfold ev_F, y_start. apply parts_F. exact HF. Qed.

(* ====================== the solver loop (C01, C07, C09) ====================== *)
Lemma solver_loop_ok_last (ys : list RL) (y : RL) : @solver_loop NumR (map Ok (ys ++ [y])) = Ok y.
Proof.
  induction ys as [|a ys IH]; [reflexivity|]. cbn [app map solver_loop].
  destruct (map Ok (ys ++ [y])) eqn:E; [destruct ys; discriminate E|]. exact IH.
Qed.

Lemma solver_loop_first_failure (pre : list RL) e (rest : list (res RL)) :
  @solver_loop NumR (map Ok pre ++ Err e :: rest) = Err e.
Proof.
  induction pre as [|a pre IH]; [reflexivity|]. cbn [app map solver_loop].
  destruct (map Ok pre ++ Err e :: rest) eqn:E; [destruct pre; discriminate E|]. exact IH.
Qed.

(* an update whose integrator takes any number of successful steps stores what Model_minerals.update makes
   of the LAST state vector: the vectors of earlier steps do not reach the stored history *)
Theorem update_steps_last n chi (h : hist) (ys : list RL) (y : RL) :
  @update_steps NumR n chi h (map Ok (ys ++ [y])) = @update_history NumR n chi h (Ok y).
Proof. unfold update_steps. rewrite solver_loop_ok_last. reflexivity. Qed.

(* ... in particular the sliding reference (C09) is the snapshot the update STARTED from, whatever the
   integrator's vectors at earlier steps of the same update were *)
Theorem update_steps_stores n chi (h : hist) (ys : list RL) (y : RL) :
  snd (@update_steps NumR n chi h (map Ok (ys ++ [y]))) = h ++ [snd (@update NumR n chi (@last_snapshot NumR h) y)]
  /\ fst (@update_steps NumR n chi h (map Ok (ys ++ [y]))) = Ok (fst (@update NumR n chi (@last_snapshot NumR h) y)).
Proof.
  rewrite update_steps_last. unfold update_history.
  destruct (@update NumR n chi (@last_snapshot NumR h) y) as [Fb s]. split; reflexivity.
Qed.

(* a failing step (after any number of successful ones, whatever would follow): the call raises and the
   stored history is the one before the call *)
Theorem update_steps_failure n chi (h : hist) (pre : list RL) e (rest : list (res RL)) :
  @update_steps NumR n chi h (map Ok pre ++ Err e :: rest) = (Err e, h).
Proof. unfold update_steps. rewrite solver_loop_first_failure. reflexivity. Qed.

(* every step sequence is of one of the two shapes (or empty, which the code cannot produce) *)
Lemma steps_shape (steps : list (res RL)) :
  steps = [] \/ (exists ys y, steps = map Ok (ys ++ [y])) \/ (exists pre e rest, steps = map Ok pre ++ Err e :: rest).
Proof.
  induction steps as [|r steps IH]; [left; reflexivity|]. right.
  destruct r as [y|e]; [|right; exists [], e, steps; reflexivity].
  destruct IH as [-> | [(ys & y' & ->) | (pre & e & rest & ->)]].
  - left. exists [], y. reflexivity.
  - left. exists (y :: ys), y'. reflexivity.
  - right. exists (y :: pre), e, rest. reflexivity.
Qed.

(* histories whose updates are whole solver loops *)
Definition run_steps (n : nat) (chi : R) (h : hist) (stepss : list (list (res RL))) : hist :=
  run n chi h (map (@solver_loop NumR) stepss).

Definition steps_ok (n : nat) (steps : list (res RL)) : Prop := step_ok n (@solver_loop NumR steps).

Theorem history_inv_steps n chi (stepss : list (list (res RL))) (h : hist) :
  (0 < n)%nat -> 0 <= chi -> hist_inv n h -> Forall (steps_ok n) stepss -> hist_inv n (run_steps n chi h stepss).
Proof.
  intros Hn Hchi Hinv Hok. unfold run_steps. apply history_inv; try assumption.
  apply Forall_forall. intros ry Hry. apply in_map_iff in Hry as [st [<- Hst]].
  rewrite Forall_forall in Hok. exact (Hok st Hst).
Qed.

(* only the LAST vector of a loop has to be usable (right length, positive clipped fraction sum) *)
Lemma steps_ok_last n (ys : list RL) (y : RL) :
  steps_ok n (map Ok (ys ++ [y])) <-> (length y = (9 + 10 * n)%nat /\ 0 < rsum (clipped_fracs y n)).
Proof. unfold steps_ok. rewrite solver_loop_ok_last. reflexivity. Qed.

Lemma steps_ok_failure n (pre : list RL) e rest : steps_ok n (map Ok pre ++ Err e :: rest).
Proof. unfold steps_ok. rewrite solver_loop_first_failure. exact I. Qed.

Theorem history_prefix_steps n chi (stepss : list (list (res RL))) (h : hist) :
  firstn (length h) (run_steps n chi h stepss) = h /\ (length h <= length (run_steps n chi h stepss))%nat.
Proof. apply history_prefix. Qed.

(* ====================== update_all (C06, C08) ====================== *)
Definition zipstep (n : nat) (chi : R) (ms : list (hist * res RL)) : list hist :=
  map (fun m => step n chi (fst m) (snd m)) ms.

Lemma update_history_step n chi (h : hist) ry : snd (@update_history NumR n chi h ry) = step n chi h ry.
Proof. reflexivity. Qed.

Lemma update_all_ok n chi : forall (hs : list hist) (ys : list RL) acc, length hs = length ys ->
  @update_all NumR n chi hs (map Ok ys) acc
  = (match rev (combine hs ys) with
     | [] => acc
     | (h, y) :: _ => Ok (fst (@update NumR n chi (@last_snapshot NumR h) y))
     end,
     zipstep n chi (combine hs (map Ok ys))).
Proof.
  induction hs as [|h hs IH]; intros ys acc Hl; destruct ys as [|y ys]; try discriminate Hl; [reflexivity|].
  cbn [map update_all update_history]. destruct (@update NumR n chi (@last_snapshot NumR h) y) as [Fb s] eqn:E.
  injection Hl as Hl. rewrite (IH ys (Ok Fb) Hl). cbn [combine zipstep map fst snd rev].
  f_equal.
  - destruct (rev (combine hs ys)) as [|[h' y'] r] eqn:Er; cbn [app]; [rewrite E; reflexivity | reflexivity].
  - f_equal. unfold step, update_history. rewrite E. reflexivity.
Qed.

Definition last_pair (ms : list (hist * RL)) : option (hist * RL) :=
  match rev ms with [] => None | m :: _ => Some m end.

(* pairs (mineral's history, the vector its integrator ends with) *)
Definition bulk_pairs (n : nat) (chi : R) (ms : list (hist * RL)) : res RL * list hist :=
  @bulk_update NumR n chi (map fst ms) (map Ok (map snd ms)).

Lemma combine_fst_snd {X Y} (ms : list (X * Y)) : combine (map fst ms) (map snd ms) = ms.
Proof. induction ms as [|[a b] ms IH]; [reflexivity|]. cbn [map combine fst snd]. rewrite IH. reflexivity. Qed.

Lemma combine_map_r {X Y Z} (f : Y -> Z) (a : list X) (b : list Y) :
  combine a (map f b) = map (fun m => (fst m, f (snd m))) (combine a b).
Proof.
  revert b; induction a as [|x a IH]; intros [|y b]; try reflexivity. cbn [map combine fst snd]. rewrite IH. reflexivity.
Qed.

(* every mineral's new history is its own update (a function of its own history and its own integrator
   vector); the value of the call is the F returned by the LAST mineral *)
Theorem bulk_pairs_spec n chi (ms : list (hist * RL)) :
  bulk_pairs n chi ms
  = (match last_pair ms with
     | None => Err OtherError
     | Some (h, y) => Ok (fst (@update NumR n chi (@last_snapshot NumR h) y))
     end,
     map (fun m => step n chi (fst m) (Ok (snd m))) ms).
Proof.
  unfold bulk_pairs, bulk_update. rewrite update_all_ok by (rewrite !map_length; reflexivity).
  rewrite (combine_map_r (@Ok RL) (map fst ms) (map snd ms)), !(combine_fst_snd ms). unfold last_pair, zipstep. rewrite map_map. cbn [fst snd].
  f_equal. destruct (rev ms) as [|[h y] r]; reflexivity.
Qed.

(* ... which is the F block of the last mineral's integrator vector (C06, bulk clause) *)
Theorem bulk_returns_last_F_block n chi (ms : list (hist * RL)) (h : hist) (y : RL) :
  length y = (9 + 10 * n)%nat -> fst (bulk_pairs n chi (ms ++ [(h, y)])) = Ok (firstn 9 y).
Proof.
  intros Hy. rewrite bulk_pairs_spec. cbn [fst]. unfold last_pair. rewrite rev_app_distr. cbn [rev app].
  rewrite update_returns_F_block' by exact Hy. reflexivity.
Qed.

(* order independence (C08): handing the minerals to update_all in another order permutes the resulting
   histories in the same way -- every mineral ends with the same history *)
Theorem bulk_order_independent n chi (ms ms' : list (hist * RL)) :
  Permutation ms ms' -> Permutation (combine (map fst ms) (snd (bulk_pairs n chi ms)))
                                    (combine (map fst ms') (snd (bulk_pairs n chi ms'))).
Proof.
  intros HP. rewrite !bulk_pairs_spec. cbn [snd].
  assert (E : forall l : list (hist * RL),
             combine (map fst l) (map (fun m => step n chi (fst m) (Ok (snd m))) l)
             = map (fun m => (fst m, step n chi (fst m) (Ok (snd m)))) l).
  { induction l as [|m l IH]; [reflexivity|]. cbn [map combine]. rewrite IH. reflexivity. }
  rewrite !E. apply Permutation_map. exact HP.
Qed.

(* interleaving independence: a bulk update of ms1 ++ ms2 leaves each mineral with the history that separate
   bulk updates of ms1 and of ms2 give it *)
Theorem bulk_split n chi (ms1 ms2 : list (hist * RL)) :
  snd (bulk_pairs n chi (ms1 ++ ms2)) = snd (bulk_pairs n chi ms1) ++ snd (bulk_pairs n chi ms2).
Proof. rewrite !bulk_pairs_spec. cbn [snd]. apply map_app. Qed.

(* a failing mineral: the exception leaves update_all; the minerals before it are updated, it and all
   later ones keep their histories *)
Theorem bulk_failure n chi (pre : list (hist * RL)) (h : hist) e (post_h : list hist) (post_y : list (res RL)) acc :
  @update_all NumR n chi (map fst pre ++ h :: post_h) (map Ok (map snd pre) ++ Err e :: post_y) acc
  = (Err e, map (fun m => step n chi (fst m) (Ok (snd m))) pre ++ h :: post_h).
Proof.
  revert acc. induction pre as [|[h0 y0] pre IH]; intros acc; [reflexivity|].
  cbn [map app fst snd update_all update_history].
  destruct (@update NumR n chi (@last_snapshot NumR h0) y0) as [Fb s] eqn:E.
  rewrite IH. f_equal. f_equal. unfold step, update_history. rewrite E. reflexivity.
Qed.

(* the start vectors: every mineral's integrator starts from the caller's F (not from the F another mineral
   returned) and from that mineral's own last snapshot; so the problem instance of a mineral does not depend
   on its position in the list nor on the other minerals *)
Theorem bulk_y0_same_F (Fd : RL) (hs : list hist) : length Fd = 9%nat ->
  Forall (fun y0 => @ev_F NumR y0 = Fd) (@bulk_y0 NumR Fd hs).
Proof.
  intros HF. unfold bulk_y0. apply Forall_forall. intros y0 Hy. apply in_map_iff in Hy as [h [<- _]].
  unfold ev_F, y_start. apply parts_F. exact HF.
Qed.

Theorem bulk_y0_own (Fd : RL) (hs : list hist) i (d : hist) : (i < length hs)%nat ->
  nth i (@bulk_y0 NumR Fd hs) [] = @y_start NumR Fd (@last_snapshot NumR (nth i hs d)).
Proof.
  intros Hi. unfold bulk_y0.
  rewrite (nth_indep _ [] (@y_start NumR Fd (@last_snapshot NumR d))) by (rewrite map_length; exact Hi).
  exact (map_nth (fun h : hist => @y_start NumR Fd (@last_snapshot NumR h)) hs d i).
Qed.

Theorem bulk_y0_perm (Fd : RL) (hs hs' : list hist) :
  Permutation hs hs' -> Permutation (@bulk_y0 NumR Fd hs) (@bulk_y0 NumR Fd hs').
Proof. apply Permutation_map. Qed.

(* ====================== the initial snapshot (C01) ====================== *)
Theorem init_default_valid n (R0 : list RL) : (0 < n)%nat -> length R0 = n -> Forall grain_ok R0 ->
  valid_snapshot n (@init_default NumR n R0).
Proof.
  intros Hn Hl Hok. unfold init_default. numR. rewrite <- INR_IZR_INZ. apply init_valid; assumption.
Qed.

(* the binary64 value of 1.0 / 3 that np.full(3, 1.0 / 3) stores: three of them sum to 1 within 3 ulp/2 *)
Lemma fl13_sum : Rabs (rsum [6004799503160661 / 18014398509481984; 6004799503160661 / 18014398509481984;
                             6004799503160661 / 18014398509481984] - 1) <= 3 / 18014398509481984.
Proof. unfold rsum. cbn [fold_right]. apply Rabs_le. lra. Qed.

(* ---- non-vacuity witnesses ---- *)
Definition id9 : RL := [1; 0; 0; 0; 1; 0; 0; 0; 1].
Definition snap_ex : @snapshot NumR := @Build_snapshot NumR [id9; id9] [0.25; 0.75].

Lemma id9_ok : grain_ok id9.
Proof.
  split; [reflexivity|]. unfold id9.
  repeat (apply Forall_cons; [unfold in11; lra|]). apply Forall_nil.
Qed.

Lemma snap_ex_valid : valid_snapshot 2 snap_ex.
Proof.
  unfold valid_snapshot, snap_ex; cbn [sn_o sn_f].
  split; [reflexivity|]. split; [apply Forall_cons; [apply id9_ok|apply Forall_cons; [apply id9_ok|apply Forall_nil]]|].
  split; [reflexivity|]. split.
  - apply Forall_cons; [unfold nonneg; lra|apply Forall_cons; [unfold nonneg; lra|apply Forall_nil]].
  - unfold rsum; cbn [fold_right]; lra.
Qed.

Lemma y_start_ex_ok : steps_ok 2 (map Ok ([[]] ++ [@y_start NumR id9 snap_ex])).
Proof.
  apply steps_ok_last. split.
  - apply y_start_length; [reflexivity | apply snap_ex_valid].
  - unfold clipped_fracs.
    change (firstn 2 (skipn (9 * 2 + 9) (@y_start NumR id9 snap_ex))) with [0.25; 0.75].
    cbn [map]. unfold clip0. numR. unfold rsum. cbn [fold_right].
    repeat match goal with |- context [Rltb ?a ?b] => destruct (Rltb a b) eqn:? end; bool2prop; lra.
Qed.

Lemma driver_nonvacuous_proof :
  length id9 = 9%nat /\ valid_snapshot 2 snap_ex /\ (0 : R) <> 1 /\ 0 < 1 / 1000
  /\ steps_ok 2 (map Ok ([[]] ++ [@y_start NumR id9 snap_ex])).
Proof.
  split; [reflexivity|]. split; [apply snap_ex_valid|]. split; [lra|]. split; [lra|]. apply y_start_ex_ok.
Qed.

Lemma problem_nonvacuous_proof : 0 < 1 / 1000 /\ length id9 = 9%nat.
Proof. split; [lra | reflexivity]. Qed.

Lemma bulk_nonvacuous_proof : length id9 = 9%nat /\ length (@y_start NumR id9 snap_ex) = (9 + 10 * 2)%nat.
Proof. split; reflexivity. Qed.

Lemma bulk_perm_nonvacuous_proof :
  Permutation [([snap_ex], id9); (([] : hist), ([] : RL))] [(([] : hist), ([] : RL)); ([snap_ex], id9)].
Proof. apply perm_swap. Qed.

(* ====================== an update under null forcing (C07) ====================== *)
(* the sliding rule on a texture without grains below the threshold is the identity *)
Lemma gbs_orient_none chi n (os prev : list RL) (fs : RL) :
  length os = length fs -> length prev = length fs -> Forall (fun f => thr chi n <= f) fs ->
  @gbs_orient NumR chi n os prev fs = os.
Proof.
  revert os prev. induction fs as [|f fs IH]; intros os prev Ho Hp Hall.
  - destruct os; [reflexivity | discriminate Ho].
  - destruct os as [|o os]; [discriminate Ho|]. destruct prev as [|p prev]; [discriminate Hp|].
    inversion Hall as [|? ? Hf Hfs]; subst. cbn [gbs_orient].
    assert (E : @gbs_mask NumR chi n f = false).
    { unfold gbs_mask, gbs_thr. numR. apply Rltb_false. exact Hf. }
    rewrite E. f_equal. apply IH; [injection Ho; auto | injection Hp; auto | exact Hfs].
Qed.

Lemma gbs_floor_none chi n (fs : RL) : Forall (fun f => thr chi n <= f) fs -> @gbs_floor NumR chi n fs = fs.
Proof.
  intros Hall. unfold gbs_floor. rewrite <- (map_id fs) at 2. apply map_ext_in. intros f Hf.
  rewrite Forall_forall in Hall. specialize (Hall f Hf).
  assert (E : @gbs_mask NumR chi n f = false).
  { unfold gbs_mask, gbs_thr. numR. apply Rltb_false. exact Hall. }
  rewrite E. reflexivity.
Qed.

Lemma gbs_fracs_none chi n (fs : RL) : Forall (fun f => thr chi n <= f) fs -> rsum fs = 1 ->
  @gbs_fracs NumR chi n fs = fs.
Proof.
  intros Hall Hs. unfold gbs_fracs. cbv zeta. rewrite gbs_floor_none by exact Hall.
  rewrite nsum_R, Hs. rewrite <- (map_id fs) at 2. apply map_ext. intros x. numR. field.
Qed.

(* C07: an update whose integrator hands back the start vector unchanged (null forcing: every component of the
   vector field is zero) returns the same F and stores the SAME snapshot again -- provided no grain is below the
   sliding threshold chi/n ... *)
Theorem null_update_identity n chi (Fd : RL) (s : @snapshot NumR) :
  length Fd = 9%nat -> valid_snapshot n s -> Forall (fun f => thr chi n <= f) (sn_f s) ->
  @update NumR n chi s (@y_start NumR Fd s) = (Fd, s).
Proof.
  intros HF Hv Hall. pose proof (start_is_last_snapshot n Fd s HF Hv) as (E1 & E2 & E3). cbv zeta in E1, E2, E3.
  destruct Hv as (Ho & Hg & Hf & Hnn & Hsum).
  unfold update. cbv zeta. rewrite E1, E2, E3.
  rewrite gbs_orient_none; [ | change (T NumR) with R in *; congruence | change (T NumR) with R in *; congruence | exact Hall].
  rewrite gbs_fracs_none by assumption.
  fold (@y_start NumR Fd s). rewrite E1, E2, E3. destruct s; reflexivity.
Qed.

(* ... and NOT otherwise (the open finding C07:null-forcing:gbs-refloor as a statement about the model): a valid
   snapshot with a grain below chi/n is re-floored by an update under null forcing, its stored volumes change *)
Definition snap_small : @snapshot NumR := @Build_snapshot NumR [id9; id9] [0.9; 0.1].

Lemma snap_small_valid : valid_snapshot 2 snap_small.
Proof.
  unfold valid_snapshot, snap_small; cbn [sn_o sn_f].
  split; [reflexivity|]. split; [apply Forall_cons; [apply id9_ok|apply Forall_cons; [apply id9_ok|apply Forall_nil]]|].
  split; [reflexivity|]. split.
  - apply Forall_cons; [unfold nonneg; lra|apply Forall_cons; [unfold nonneg; lra|apply Forall_nil]].
  - unfold rsum; cbn [fold_right]; lra.
Qed.

Theorem null_update_refloors :
  valid_snapshot 2 snap_small /\ 0 <= 0.3 /\
  sn_f (snd (@update NumR 2 0.3 snap_small (@y_start NumR id9 snap_small))) <> sn_f snap_small.
Proof.
  split; [apply snap_small_valid|]. split; [lra|].
  pose proof (start_is_last_snapshot 2 id9 snap_small eq_refl snap_small_valid) as (_ & _ & E3). cbv zeta in E3.
  assert (Hy : length (@y_start NumR id9 snap_small) = (9 + 10 * 2)%nat) by reflexivity.
  assert (Hpos : 0 < rsum (clipped_fracs (@y_start NumR id9 snap_small) 2)).
  { unfold clipped_fracs.
    change (firstn 2 (skipn (9 * 2 + 9) (@y_start NumR id9 snap_small))) with [0.9; 0.1].
    cbn [map]. unfold clip0. numR. unfold rsum. cbn [fold_right].
    repeat match goal with |- context [Rltb ?a ?b] => destruct (Rltb a b) eqn:? end; bool2prop; lra. }
  destruct snap_small_valid as (Ho & Hg & _).
  destruct (update_stores_gbs 2 0.3 snap_small (@y_start NumR id9 snap_small) ltac:(lia) ltac:(lra) Hy Hpos Ho Hg) as [_ Hf].
  rewrite Hf, E3. cbn [snap_small sn_f].
  unfold gbs_fracs, gbs_floor, gbs_mask, gbs_thr, nsum. cbn [map fold_left Z.of_nat Pos.of_succ_nat Pos.succ]. numR.
  repeat match goal with |- context [Rltb ?a ?b] => destruct (Rltb a b) eqn:? end; bool2prop; cbn [map fold_left];
    try lra; intros H; injection H; intros; lra.
Qed.

Lemma null_update_nonvacuous_proof :
  length id9 = 9%nat /\ valid_snapshot 2 snap_ex /\ Forall (fun f => thr 0.3 2 <= f) (sn_f snap_ex).
Proof.
  split; [reflexivity|]. split; [apply snap_ex_valid|]. unfold snap_ex, thr; cbn [sn_f Z.of_nat Pos.of_succ_nat Pos.succ].
  apply Forall_cons; [lra|apply Forall_cons; [lra|apply Forall_nil]].
Qed.

(* ====================== histories of bulk updates (C08, C01) ====================== *)
(* ---- histories of bulk updates: K minerals, any number of update_all calls ---- *)
Definition bulk_step (n : nat) (chi : R) (hs : list hist) (ys : list RL) : list hist :=
  snd (bulk_pairs n chi (combine hs ys)).
Definition bulk_run (n : nat) (chi : R) (hs : list hist) (yss : list (list RL)) : list hist :=
  fold_left (bulk_step n chi) yss hs.

Lemma bulk_step_length n chi (hs : list hist) (ys : list RL) :
  length ys = length hs -> length (bulk_step n chi hs ys) = length hs.
Proof.
  intros Hl. unfold bulk_step. rewrite bulk_pairs_spec. cbn [snd]. rewrite map_length, combine_length. lia.
Qed.

Lemma bulk_step_nth n chi (hs : list hist) (ys : list RL) i (d : hist) (dy : RL) :
  length ys = length hs -> (i < length hs)%nat ->
  nth i (bulk_step n chi hs ys) d = step n chi (nth i hs d) (Ok (nth i ys dy)).
Proof.
  intros Hl Hi. unfold bulk_step. rewrite bulk_pairs_spec. cbn [snd].
  set (g := fun m : hist * RL => step n chi (fst m) (Ok (snd m))).
  rewrite (nth_indep _ d (g (d, dy))) by (rewrite map_length, combine_length; lia).
  rewrite (map_nth g (combine hs ys) (d, dy) i). rewrite combine_nth by (symmetry; exact Hl). reflexivity.
Qed.

(* every mineral of an assemblage that is advanced by any number of update_all calls ends with the history it would
   have had alone, updated with its own integrator vectors: the minerals evolve independently *)
Theorem bulk_run_each n chi (yss : list (list RL)) : forall (hs : list hist) i (d : hist) (dy : RL),
  Forall (fun ys => length ys = length hs) yss -> (i < length hs)%nat ->
  nth i (bulk_run n chi hs yss) d = run n chi (nth i hs d) (map (fun ys => Ok (nth i ys dy)) yss).
Proof.
  induction yss as [|ys yss IH]; intros hs i d dy Hall Hi; [reflexivity|].
  inversion Hall as [|? ? Hy Hys]; subst. cbn [bulk_run fold_left map run].
  fold (bulk_run n chi (bulk_step n chi hs ys) yss).
  fold (run n chi (step n chi (nth i hs d) (Ok (nth i ys dy))) (map (fun ys0 => Ok (nth i ys0 dy)) yss)).
  rewrite <- (bulk_step_nth n chi hs ys i d dy Hy Hi).
  apply IH.
  - rewrite bulk_step_length by exact Hy. exact Hys.
  - rewrite bulk_step_length by exact Hy. exact Hi.
Qed.

Lemma bulk_run_length n chi (yss : list (list RL)) : forall hs : list hist,
  Forall (fun ys => length ys = length hs) yss -> length (bulk_run n chi hs yss) = length hs.
Proof.
  induction yss as [|ys yss IH]; intros hs Hall; [reflexivity|].
  inversion Hall as [|? ? Hy Hys]; subst. cbn [bulk_run fold_left]. fold (bulk_run n chi (bulk_step n chi hs ys) yss).
  rewrite IH; rewrite bulk_step_length by exact Hy; [reflexivity | exact Hys].
Qed.

(* ... hence the C01 invariant for whole assemblages: every stored snapshot of every mineral is a valid texture *)
Theorem bulk_run_invariant n chi (yss : list (list RL)) (hs : list hist) :
  (0 < n)%nat -> 0 <= chi -> Forall (hist_inv n) hs ->
  Forall (fun ys => length ys = length hs /\ Forall (fun y => step_ok n (Ok y)) ys) yss ->
  Forall (hist_inv n) (bulk_run n chi hs yss).
Proof.
  intros Hn Hchi Hinv Hall.
  assert (Hlen : Forall (fun ys => length ys = length hs) yss).
  { eapply Forall_impl; [|exact Hall]. intros ys [H _]; exact H. }
  apply Forall_forall. intros h Hh. apply (In_nth _ _ ([] : hist)) in Hh as (i & Hi & <-).
  rewrite bulk_run_length in Hi by exact Hlen.
  rewrite (bulk_run_each n chi yss hs i [] [] Hlen Hi).
  apply history_inv; try assumption.
  - rewrite Forall_forall in Hinv. apply Hinv. apply nth_In. exact Hi.
  - apply Forall_forall. intros ry Hry. apply in_map_iff in Hry as (ys & <- & Hys).
    rewrite Forall_forall in Hall. destruct (Hall ys Hys) as [Hl Hok].
    rewrite Forall_forall in Hok. apply Hok. apply nth_In. rewrite Hl. exact Hi.
Qed.

(* C06, across updates: when the F an update returns is passed to the next update (of this or of another mineral), the
   next integration of F starts EXACTLY at the F block of the vector the previous integrator ended with -- neither the
   clips, nor the sliding floor, nor the normalisation touch it *)
Theorem F_handover n chi (prev s' : @snapshot NumR) (y : RL) : length y = (9 + 10 * n)%nat ->
  @ev_F NumR (@y_start NumR (fst (@update NumR n chi prev y)) s') = firstn 9 y.
Proof.
  intros Hy. rewrite update_returns_F_block' by exact Hy. apply y_start_F.
  rewrite firstn_length. change (T NumR) with R in *. lia.
Qed.
