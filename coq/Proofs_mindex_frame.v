(* Proofs_mindex_frame.v -- the frame-invariance clause FAILS of the product the source computes:
   a witness for the Dropped variant with the orthorhombic operator list (C14_mindex_frame_invariant
   is the good statement: Hamilton product, proper operators).

   q1 = 1 and q2 = k (the half turn about z, symmetry-equivalent to 1) have misorientation angle 0:
   the operator k maps q1 to k.  After the rigid rotation r = (1, 2, 2, 4)/5 of the sample frame the
   two grains are r and k r; under the Dropped product the rotation operators shrink them
   (dropped_norm_defect), the reflections only flip signs, and none of the 49 operator pairs gives
   parallel images any more: the angle is positive. *)
From Coq Require Import Reals ZArith List Bool Lra Lia.
From PV Require Import Num NumR Model_mindex Proofs_mindex Proofs_mindex_single.
Import ListNotations.
Open Scope R_scope.

Lemma half_turn_quats :
  @rotq NumR 2 1 1 = (0, 0, 1, 0) /\ @rotq NumR 1 1 1 = (0, 1, 0, 0) /\ @rotq NumR 0 1 1 = (1, 0, 0, 0).
Proof.
  unfold rotq; numR. replace (1 * PI / 1 / 2) with (PI / 2) by field. rewrite sin_PI2, cos_PI2. auto.
Qed.

Lemma ortho_ops_exact_eq : @symmetry_operations NumR Orthorhombic = ortho_ops_exact.
Proof.
  destruct half_turn_quats as (A & B & C).
  cbv [symmetry_operations rots flat_map map app]. rewrite A, B, C.
  unfold ortho_ops_exact, qid, m1; numR.
  repeat (apply f_equal2; [ first [ reflexivity | (apply f_equal; repeat apply f_equal2; lra) ] | ]).
  reflexivity.
Qed.

Lemma clip1_id x : -1 <= x <= 1 -> @clip1 NumR x = x.
Proof.
  intros [A B]. unfold clip1, m1; numR. unfold Rltb.
  destruct (Rlt_dec x (- (1))); [lra|]. destruct (Rlt_dec 1 x); [lra|reflexivity].
Qed.

Lemma ang1_pos (p q : Q4) : -1 < qdot p q < 1 -> 0 < @ang1 NumR p q.
Proof.
  intros [A B].
  assert (H: -1 < Rabs (qdot p q) < 1).
  { unfold Rabs. destruct (Rcase_abs (qdot p q)); lra. }
  unfold ang1, rad2deg. rewrite clip1_id by lra.
  destruct (acos_bound_lt _ H) as [P _]. pose proof PI_RGT_0. clear A B H. numR.
  apply Rmult_lt_0_compat; [lra|]. apply Rmult_lt_0_compat; [assumption|].
  unfold Rdiv. apply Rmult_lt_0_compat; [lra|]. now apply Rinv_0_lt_compat.
Qed.

Definition fr_q1 : Q4 := (0, 0, 0, 1).
Definition fr_q2 : Q4 := (0, 0, 1, 0).
Definition fr_r : Q4 := (1 / 5, 2 / 5, 2 / 5, 4 / 5).

Lemma frame_before : @pair_angle NumR Dropped ortho_ops_exact fr_q1 fr_q2 = 0.
Proof.
  rewrite pair_angle_values.
  assert (Hne : angle_values Dropped ortho_ops_exact fr_q1 fr_q2 <> []) by (apply angle_values_nonempty; discriminate).
  destruct (lmin_spec _ Hne) as [A B]. apply Rle_antisym.
  - apply B. apply in_angle_values.
    exists (@Rot NumR (0, 0, 1, 0)), (@Rot NumR (0, 0, 0, 1)).
    split; [cbn; tauto|]. split; [cbn; tauto|].
    assert (E1: apply_op Dropped (@Rot NumR (0, 0, 1, 0)) fr_q1 = (0, 0, 1, 0))
      by (cbv [apply_op qprod fr_q1]; numR; split4; ring).
    assert (E2: apply_op Dropped (@Rot NumR (0, 0, 0, 1)) fr_q2 = (0, 0, 1, 0))
      by (cbv [apply_op qprod fr_q2]; numR; split4; ring).
    rewrite E1, E2. symmetry. apply ang1_self. unfold qnorm2; qunf; lra.
  - apply in_angle_values in A as (s & t & _ & _ & E). rewrite E. apply ang1_nonneg.
Qed.

Lemma frame_after :
  0 < @pair_angle NumR Dropped ortho_ops_exact (hmul fr_q1 fr_r) (hmul fr_q2 fr_r).
Proof.
  rewrite pair_angle_values.
  assert (Hne : angle_values Dropped ortho_ops_exact (hmul fr_q1 fr_r) (hmul fr_q2 fr_r) <> [])
    by (apply angle_values_nonempty; discriminate).
  destruct (lmin_spec _ Hne) as [A _].
  apply in_angle_values in A as (s & t & Hs & Ht & E). rewrite E. clear E Hne.
  apply ang1_pos.
  cbn [In ortho_ops_exact] in Hs, Ht.
  repeat (destruct Hs as [<-|Hs]); try destruct Hs;
    repeat (destruct Ht as [<-|Ht]); try destruct Ht;
    cbv [apply_op hmul qprod qdot qx qy qz qw fst snd fr_q1 fr_q2 fr_r]; numR; lra.
Qed.

Theorem dropped_frame_dependent :
  exists q1 q2 r : Q4, qnorm2 q1 = 1 /\ qnorm2 q2 = 1 /\ qnorm2 r = 1 /\
    @pair_angle NumR Dropped (@symmetry_operations NumR Orthorhombic) q1 q2 = 0 /\
    0 < @pair_angle NumR Dropped (@symmetry_operations NumR Orthorhombic) (hmul q1 r) (hmul q2 r).
Proof.
  exists fr_q1, fr_q2, fr_r. rewrite ortho_ops_exact_eq.
  repeat split; try (unfold qnorm2, fr_q1, fr_q2, fr_r; qunf; lra).
  - apply frame_before.
  - apply frame_after.
Qed.
