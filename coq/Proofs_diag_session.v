(* Proofs_diag_session.v -- lemmas about Model_diag_session: a history of diagnostic calls on
   live ndarray objects that are modified in place between the calls.
   * the current source (memo = false), any numeric instance: every call of ANY history is the
     one-call model function of the contents its argument has at that time; it does not depend
     on earlier calls, on the table of remembered matrices, nor on which object holds the
     values; diagnostic calls never modify an object;
   * over the reals: an in-place frame rotation / reordering / sign relabelling of an object
     produces an equivalent texture, so P, G, R of the object are the same before and after, and
     its Bingham mean co-rotates (resp. stays) up to sign -- the objectivity theorems of
     Proofs_diag lifted to call sequences on ONE object;
   * an implementation that remembers the scatter matrix per (object, row) is refuted: a
     three-step history (call, refill, call) hands LAPACK the matrix of the OLD contents. *)
From Coq Require Import Reals ZArith List Bool Lra Lia Permutation.
From PV Require Import Num NumR Model_diag Proofs_diag Model_diag_session.
Import ListNotations.

(* ------------------------------------------------------------------------- *)
(* any numeric instance                                                      *)
(* ------------------------------------------------------------------------- *)
Section Any.
  Context {F : Num}.
  Variable eigvalsh : @sym3 F -> @eigvals F.
  Variable eigh : @sym3 F -> @eigres F.

  Notation srun := (@run F eigvalsh eigh).
  Notation spure := (@pure_run F eigvalsh eigh).
  Notation sout1 := (@pure_out F eigvalsh eigh).

  Lemma run_false_pure (st : @store F) (c : @cache F) (h : list (@sop F)) :
    srun false (st, c) h = spure st h.
  Proof.
    revert st c; induction h as [|o h IH]; intros st c; [reflexivity|].
    destruct o; cbn [run step scatter_of pure_run pure_out mutate app];
      try (rewrite IH; reflexivity).
  Qed.

  Lemma pure_run_app (st : @store F) (h h' : list (@sop F)) :
    spure st (h ++ h') = spure st h ++ spure (store_after st h) h'.
  Proof.
    revert st; induction h as [|o h IH]; intros st; [reflexivity|].
    cbn [app pure_run store_after fold_left]. rewrite IH, app_assoc. reflexivity.
  Qed.

  Lemma call_after_history (st : @store F) (c : @cache F) (h : list (@sop F)) (o : @sop F) :
    srun false (st, c) (h ++ [o]) = srun false (st, c) h ++ sout1 (store_after st h) o.
  Proof.
    rewrite !run_false_pure, pure_run_app. cbn [pure_run]. now rewrite app_nil_r.
  Qed.

  Lemma pure_out_same_call (st st' : @store F) (o o' : @sop F) :
    same_call st st' o o' -> sout1 st o = sout1 st' o'.
  Proof.
    destruct o, o'; cbn [same_call]; try contradiction.
    - intros [-> E]. cbn [pure_out]. now rewrite E.
    - intros [-> E]. cbn [pure_out]. now rewrite E.
    - intros (-> & -> & E). cbn [pure_out]. now rewrite E.
  Qed.

  Lemma mutate_call (st : @store F) (o : @sop F) : is_mutation o = false -> mutate st o = st.
  Proof. destruct o; cbn; intros H; try discriminate; reflexivity. Qed.

  Lemma pure_out_mutation (st : @store F) (o : @sop F) : is_mutation o = true -> sout1 st o = [].
  Proof. destruct o; cbn; intros H; try discriminate; reflexivity. Qed.

  Lemma store_after_filter (st : @store F) (h : list (@sop F)) :
    store_after st h = store_after st (filter is_mutation h).
  Proof.
    revert st; induction h as [|o h IH]; intros st; [reflexivity|].
    cbn [filter]. destruct (is_mutation o) eqn:E; cbn [store_after fold_left].
    - apply IH.
    - rewrite (mutate_call _ _ E). apply IH.
  Qed.

  (* history and identity independence of one call *)
  Theorem session_call_pure (st st' : @store F) (c c' : @cache F) (h h' : list (@sop F)) (o o' : @sop F) :
    srun false (st, c) (h ++ [o]) = srun false (st, c) h ++ sout1 (store_after st h) o /\
    store_after st h = store_after st (filter is_mutation h) /\
    (same_call (store_after st h) (store_after st' h') o o' ->
     sout1 (store_after st h) o = sout1 (store_after st' h') o').
  Proof.
    split; [apply call_after_history|]. split; [apply store_after_filter|].
    apply pure_out_same_call.
  Qed.

  (* ---- store bookkeeping ---- *)
  Lemma buf_set_same (st : @store F) b os : (b < length st)%nat -> buf (set_buf st b os) b = os.
  Proof.
    revert b; induction st as [|x st IH]; intros b Hb; [cbn in Hb; lia|].
    destruct b; cbn [set_buf buf nth]; [reflexivity|]. apply IH. cbn in Hb. lia.
  Qed.

  Lemma buf_set_other (st : @store F) b b' os : b <> b' -> buf (set_buf st b os) b' = buf st b'.
  Proof.
    revert b b'; induction st as [|x st IH]; intros b b' Hb; [reflexivity|].
    destruct b, b'; cbn [set_buf buf nth]; try reflexivity; [lia|]. apply IH. lia.
  Qed.

  Lemma permute_seq (os : @buffer F) : permute (seq 0 (length os)) os = os.
  Proof.
    unfold permute. induction os as [|a os IH]; [reflexivity|].
    cbn [length seq map nth]. f_equal.
    rewrite <- seq_shift, map_map. cbn [nth]. exact IH.
  Qed.

  Lemma permute_Permutation (p : list nat) (os : @buffer F) :
    Permutation p (seq 0 (length os)) -> Permutation os (permute p os).
  Proof.
    intros H. rewrite <- (permute_seq os) at 1. unfold permute.
    apply Permutation_map. now apply Permutation_sym.
  Qed.
End Any.

(* ------------------------------------------------------------------------- *)
(* reals: in-place symmetry operations give equivalent textures              *)
(* ------------------------------------------------------------------------- *)
Open Scope R_scope.

Definition sign3 (s : V3) : Prop := sign (vx s) /\ sign (vy s) /\ sign (vz s).

Lemma flip_rows_flipped (s : V3) (o : M3) : sign3 s -> axes_flipped o (flip_rows s o).
Proof.
  intros (H0 & H1 & H2). exists (vx s), (vy s), (vz s). repeat (split; [assumption|]).
  destruct o as [[a b] c]. destruct a as [[? ?] ?], b as [[? ?] ?], c as [[? ?] ?].
  cbv [flip_rows scalev scale3 vx vy vz fst snd]. numR. reflexivity.
Qed.

Lemma flip_all_flipped (ss : list V3) (os : list M3) :
  length ss = length os -> Forall sign3 ss -> Forall2 axes_flipped os (flip_all ss os).
Proof.
  revert os; induction ss as [|s ss IH]; intros os Hl Hs.
  - destruct os; [constructor|discriminate].
  - destruct os as [|o os]; [discriminate|]. cbn [flip_all]. inversion Hs; subst.
    constructor; [now apply flip_rows_flipped|]. apply IH; [cbn in Hl; lia|assumption].
Qed.

(* an in-place operation on object b under which the property demands invariance *)
Definition inplace_symmetry (os : list M3) (b : nat) (o : @sop NumR) : Prop :=
  match o with
  | SRotate b' Q => b' = b /\ orthogonal Q
  | SPermute b' p => b' = b /\ Permutation p (seq 0 (length os))
  | SFlip b' ss => b' = b /\ length ss = length os /\ Forall sign3 ss
  | _ => False
  end.

Lemma inplace_equivalent (st : @store NumR) b o :
  (b < length st)%nat -> inplace_symmetry (buf st b) b o ->
  equivalent_texture (buf st b) (buf (mutate st o) b).
Proof.
  intros Hb. destruct o; cbn [inplace_symmetry mutate]; try contradiction.
  - intros [-> HQ]. rewrite buf_set_same by assumption. now apply eqv_frame.
  - intros [-> Hp]. rewrite buf_set_same by assumption. apply eqv_perm. now apply permute_Permutation.
  - intros (-> & Hl & Hs). rewrite buf_set_same by assumption. apply eqv_flip. now apply flip_all_flipped.
Qed.

Section Reals.
  Variable eigvalsh : S3 -> V3.
  Variable eigh : S3 -> EV.
  Notation srun := (@run NumR eigvalsh eigh).

  (* P, G, R of ONE object before and after an in-place symmetry operation *)
  Theorem session_pgr_inplace (st : @store NumR) (c : @cache NumR) b r o :
    (b < length st)%nat -> inplace_symmetry (buf st b) b o ->
    let os := buf st b in let os' := buf (mutate st o) b in
    vals_spec (scatter os r) (eigvalsh (scatter os r)) ->
    vals_spec (scatter os' r) (eigvalsh (scatter os' r)) ->
    srun false (st, c) [SPgr b r; o; SPgr b r] =
      [OPgr (scatter os r) (symmetry_pgr eigvalsh os r);
       OPgr (scatter os' r) (symmetry_pgr eigvalsh os r)].
  Proof.
    intros Hb Hs os os' H H'. rewrite run_false_pure.
    assert (Hm: is_mutation o = true) by (destruct o; cbn in Hs; try contradiction; reflexivity).
    cbn [pure_run pure_out mutate app]. rewrite (pure_out_mutation eigvalsh eigh st o Hm).
    cbn [app pure_out pure_run]. fold os os'. rewrite ?app_nil_r.
    rewrite (pgr_invariant eigvalsh eigvalsh os os' r (inplace_equivalent st b o Hb Hs) H H').
    reflexivity.
  Qed.

  Theorem session_coaxial_inplace (st : @store NumR) (c : @cache NumR) b r1 r2 o :
    (b < length st)%nat -> inplace_symmetry (buf st b) b o ->
    let os := buf st b in let os' := buf (mutate st o) b in
    vals_spec (scatter os r1) (eigvalsh (scatter os r1)) ->
    vals_spec (scatter os r2) (eigvalsh (scatter os r2)) ->
    vals_spec (scatter os' r1) (eigvalsh (scatter os' r1)) ->
    vals_spec (scatter os' r2) (eigvalsh (scatter os' r2)) ->
    srun false (st, c) [SCoaxial b r1 r2; o; SCoaxial b r1 r2] =
      [OCoaxial (scatter os r1) (scatter os r2) (coaxial_index eigvalsh os r1 r2);
       OCoaxial (scatter os' r1) (scatter os' r2) (coaxial_index eigvalsh os r1 r2)].
  Proof.
    intros Hb Hs os os' H1 H2 H1' H2'. rewrite run_false_pure.
    assert (Hm: is_mutation o = true) by (destruct o; cbn in Hs; try contradiction; reflexivity).
    cbn [pure_run pure_out mutate app]. rewrite (pure_out_mutation eigvalsh eigh st o Hm).
    cbn [app pure_out pure_run]. fold os os'. rewrite ?app_nil_r.
    rewrite (coaxial_invariant eigvalsh eigvalsh os os' r1 r2
               (inplace_equivalent st b o Hb Hs) H1 H2 H1' H2').
    reflexivity.
  Qed.

  (* Bingham mean of ONE object before and after an in-place frame rotation *)
  Theorem session_bingham_inplace_rotation (st : @store NumR) (c : @cache NumR) b r (Q : M3) :
    (b < length st)%nat -> orthogonal Q ->
    let os := buf st b in let os' := map (rotate_frame Q) os in
    eig_spec (scatter os r) (eigh (scatter os r)) ->
    eig_spec (scatter os' r) (eigh (scatter os' r)) ->
    simple_top (eigh (scatter os r)) ->
    exists u u', srun false (st, c) [SBingham b r; SRotate b Q; SBingham b r] =
                   [OBingham (scatter os r) u; OBingham (scatter os' r) u'] /\
                 u = bingham_average eigh os r /\ up_to_sign u' (mulv Q u).
  Proof.
    intros Hb HQ os os' H H' Ht. rewrite run_false_pure.
    cbn [pure_run pure_out mutate app]. rewrite buf_set_same by assumption. fold os os'.
    eexists _, _. split; [reflexivity|]. split; [reflexivity|].
    exact (bingham_corotates eigh eigh Q os r HQ H H' Ht).
  Qed.

  (* ... and after an in-place reordering or sign relabelling *)
  Theorem session_bingham_inplace_same (st : @store NumR) (c : @cache NumR) b r o :
    (b < length st)%nat ->
    (exists p, o = SPermute b p /\ Permutation p (seq 0 (length (buf st b)))) \/
    (exists ss, o = SFlip b ss /\ length ss = length (buf st b) /\ Forall sign3 ss) ->
    let os := buf st b in let os' := buf (mutate st o) b in
    eig_spec (scatter os r) (eigh (scatter os r)) ->
    eig_spec (scatter os' r) (eigh (scatter os' r)) ->
    simple_top (eigh (scatter os r)) ->
    exists u u', srun false (st, c) [SBingham b r; o; SBingham b r] =
                   [OBingham (scatter os r) u; OBingham (scatter os' r) u'] /\
                 u = bingham_average eigh os r /\ up_to_sign u' u.
  Proof.
    intros Hb Ho os os' H H' Ht. rewrite run_false_pure.
    assert (He: Permutation os os' \/ Forall2 axes_flipped os os').
    { subst os os'. destruct Ho as [(p & -> & Hp)|(ss & -> & Hl & Hs)]; cbn [mutate];
        rewrite buf_set_same by assumption.
      - left. now apply permute_Permutation.
      - right. now apply flip_all_flipped. }
    assert (Hn: pure_out eigvalsh eigh st o = []).
    { destruct Ho as [(p & -> & _)|(ss & -> & _)]; reflexivity. }
    cbn [pure_run pure_out app mutate]. rewrite Hn. cbn [app pure_out]. fold os os'.
    eexists _, _. split; [reflexivity|]. split; [reflexivity|].
    exact (bingham_same_scatter eigh eigh os os' r He H H' Ht).
  Qed.
End Reals.

(* ------------------------------------------------------------------------- *)
(* the memoising variant is refuted                                          *)
(* ------------------------------------------------------------------------- *)
Definition Iyx : M3 := ((0, 1, 0), (1, 0, 0), (0, 0, 1)).

Lemma memo_refuted :
  exists (st : @store NumR) (h : list (@sop NumR)),
    forall (eigvalsh : S3 -> V3) (eigh : S3 -> EV),
      scatters_of (run eigvalsh eigh true (st, []) h) <> scatters_of (pure_run eigvalsh eigh st h) /\
      scatters_of (run eigvalsh eigh false (st, []) h) = scatters_of (pure_run eigvalsh eigh st h).
Proof.
  exists [[I3]], [SPgr 0 0; SFill 0 [Iyx]; SPgr 0 0]. intros eigvalsh eigh. split.
  - cbn [run step scatter_of lookup mutate set_buf buf nth app Nat.eqb andb pure_run pure_out
         scatters_of flat_map].
    rewrite !scatter_R.
    cbv [scatterR fold_right rowv I3 Iyx add6 outer6 zero6].
    intros E. injection E. intros. lra.
  - exact (f_equal _ (run_false_pure eigvalsh eigh _ _ _)).
Qed.

(* non-vacuity of the hypotheses of the in-place theorems: one aligned grain, the three
   operations (the orthogonal swap of x and y, the identity permutation, a sign relabelling) *)
Lemma nonvacuous_session :
  let st : @store NumR := [[I3]] in
  (0 < length st)%nat /\
  inplace_symmetry (buf st 0) 0 (SRotate 0 Iyx) /\
  inplace_symmetry (buf st 0) 0 (SPermute 0 [0%nat]) /\
  inplace_symmetry (buf st 0) 0 (SFlip 0 [((1, -1, -1) : V3)]) /\
  same_call st (store_after st [SFill 0 [Iyx]; SPgr 0 1; SFill 0 [I3]]) (SPgr 0 2) (SPgr 0 2).
Proof.
  cbv zeta. split; [cbn; lia|]. split.
  { split; [reflexivity|]. cbv [orthogonal gram Iyx id6]. dunf. split_tuple; ring. }
  split; [split; [reflexivity|apply Permutation_refl]|]. split.
  { split; [reflexivity|]. split; [reflexivity|]. constructor; [|constructor].
    cbv [sign3 sign vx vy vz fst snd]. repeat split; (left; reflexivity) || (right; reflexivity). }
  cbn. split; reflexivity.
Qed.
