(* Extract_geometry.v -- extraction of the C20 models to OCaml (ExtrOcamlBasic only). *)
From Coq Require Import Extraction ExtrOcamlBasic.
From PV Require Import Num Model_density Model_poles_axes Entry_geometry.
From PV.gen Require Import Gen_geometry.
Extraction Language OCaml.
Extraction "model_geometry.ml" run_to_cartesian run_to_spherical run_lambert run_poles run_poles_str run_axes_read run_density run_raw_totals.
