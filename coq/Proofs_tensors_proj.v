(* Proofs_tensors_proj.v -- the generated symmetry-class projectors of pydrex.tensors
   (mono, ortho, tetr, hex) on 21-vectors: linear, idempotent, self-adjoint (hence
   orthogonal projections), nested ranges, Pythagoras. *)
From Coq Require Import Reals ZArith List Lra Lia Bool.
From PV Require Import Num NumR Model_voigt Proofs_tensors_alg Proofs_tensors_rot Proofs_tensors_maps.
From PV.gen Require Import Gen_tensors.
Import ListNotations.
Open Scope R_scope.

Notation V := (arr NumR).
Definition dot21 (u v : V) : R := fold_right (fun k s => u k * v k + s) 0 (seq 0 21).
Definition vsub (u v : V) : V := fun k => u k - v k.
Definition vlin (a : R) (u : V) (b : R) (v : V) : V := fun k => a * u k + b * v k.
Definition veq (u v : V) : Prop := forall k, (k < 21)%nat -> u k = v k.

Lemma sumsq21_dot u : sumsq 21 u = dot21 u u.
Proof. reflexivity. Qed.

Lemma dot21_ext u u' v v' : veq u u' -> veq v v' -> dot21 u v = dot21 u' v'.
Proof.
  intros H1 H2. cbv [dot21 seq fold_right].
  rewrite !H1, !H2 by lia. reflexivity.
Qed.
Lemma sumsq21_ext u u' : veq u u' -> sumsq 21 u = sumsq 21 u'.
Proof. intros H; rewrite !sumsq21_dot; apply dot21_ext; assumption. Qed.

(* hex_project is generated as a fallible function (it divides by sqrt 2); it never fails *)
Definition hexv (x : arr NumR) : arr NumR :=
  match k_hex_project x with Ok y => y | Err _ => fun _ => 0 end.
Lemma hex_ok (x : arr NumR) : k_hex_project x = Ok (hexv x).
Proof. unfold hexv, k_hex_project. numR. rewrite sqrt2_neqb. reflexivity. Qed.
Lemma hex_inv (x y : arr NumR) : k_hex_project x = Ok y -> y = hexv x.
Proof. rewrite hex_ok. intros E; inversion E; reflexivity. Qed.

Ltac each21 k tac := do 21 (destruct k as [|k]; [tac|]); exfalso; lia.
Ltac unf := lazy [hexv k_hex_project k_mono_project k_ortho_project k_tetr_project vlin vsub
                  mk_arr nth]; numR; rewrite ?sqrt2_neqb.
(* goals that mention sqrt 2: clear denominators, then normalise modulo s*s = 2 *)
Ltac sfield :=
  let s := fresh "s" in let Hs := fresh "Hs" in let Hp := fresh "Hp" in
  pose proof sqrt2_sq as Hs; pose proof sqrt2_pos as Hp; set (s := sqrt 2) in *;
  field_simplify_eq; try lra; ring [Hs].

(* ---- linear ---- *)
Theorem mono_linear a b (x y : arr NumR) : veq (k_mono_project (vlin a x b y)) (vlin a (k_mono_project x) b (k_mono_project y)).
Proof. intros k Hk; each21 k ltac:(unf; ring). Qed.
Theorem ortho_linear a b (x y : arr NumR) : veq (k_ortho_project (vlin a x b y)) (vlin a (k_ortho_project x) b (k_ortho_project y)).
Proof. intros k Hk; each21 k ltac:(unf; ring). Qed.
Theorem tetr_linear a b (x y : arr NumR) : veq (k_tetr_project (vlin a x b y)) (vlin a (k_tetr_project x) b (k_tetr_project y)).
Proof. intros k Hk; each21 k ltac:(unf; field). Qed.
Theorem hex_linear a b (x y : arr NumR) : veq (hexv (vlin a x b y)) (vlin a (hexv x) b (hexv y)).
Proof. intros k Hk. pose proof sqrt2_pos. each21 k ltac:(unf; field; lra). Qed.

(* ---- idempotent ---- *)
Theorem mono_idem (x : arr NumR) : veq (k_mono_project (k_mono_project x)) (k_mono_project x).
Proof. intros k Hk; each21 k ltac:(unf; reflexivity). Qed.
Theorem ortho_idem (x : arr NumR) : veq (k_ortho_project (k_ortho_project x)) (k_ortho_project x).
Proof. intros k Hk; each21 k ltac:(unf; reflexivity). Qed.
Theorem tetr_idem (x : arr NumR) : veq (k_tetr_project (k_tetr_project x)) (k_tetr_project x).
Proof. intros k Hk; each21 k ltac:(unf; try reflexivity; field). Qed.
Theorem hex_idem (x : arr NumR) : veq (hexv (hexv x)) (hexv x).
Proof. intros k Hk; each21 k ltac:(unf; try reflexivity; sfield). Qed.

(* ---- self-adjoint ---- *)
Theorem mono_selfadj (x y : arr NumR) : dot21 (k_mono_project x) y = dot21 x (k_mono_project y).
Proof. cbv [dot21 seq fold_right]; unf; ring. Qed.
Theorem ortho_selfadj (x y : arr NumR) : dot21 (k_ortho_project x) y = dot21 x (k_ortho_project y).
Proof. cbv [dot21 seq fold_right]; unf; ring. Qed.
Theorem tetr_selfadj (x y : arr NumR) : dot21 (k_tetr_project x) y = dot21 x (k_tetr_project y).
Proof. cbv [dot21 seq fold_right]; unf; field. Qed.
Theorem hex_selfadj (x y : arr NumR) : dot21 (hexv x) y = dot21 x (hexv y).
Proof. cbv [dot21 seq fold_right]; unf; sfield. Qed.

(* ---- nested ranges: hex < tetr < ortho < mono ---- *)
Theorem mono_ortho (x : arr NumR) : veq (k_mono_project (k_ortho_project x)) (k_ortho_project x).
Proof. intros k Hk; each21 k ltac:(unf; reflexivity). Qed.
Theorem ortho_mono (x : arr NumR) : veq (k_ortho_project (k_mono_project x)) (k_ortho_project x).
Proof. intros k Hk; each21 k ltac:(unf; reflexivity). Qed.
Theorem ortho_tetr (x : arr NumR) : veq (k_ortho_project (k_tetr_project x)) (k_tetr_project x).
Proof. intros k Hk; each21 k ltac:(unf; reflexivity). Qed.
Theorem tetr_ortho (x : arr NumR) : veq (k_tetr_project (k_ortho_project x)) (k_tetr_project x).
Proof. intros k Hk; each21 k ltac:(unf; reflexivity). Qed.
Theorem tetr_hex (x : arr NumR) : veq (k_tetr_project (hexv x)) (hexv x).
Proof. intros k Hk. pose proof sqrt2_pos. each21 k ltac:(unf; try reflexivity; field; lra). Qed.
Theorem hex_tetr (x : arr NumR) : veq (hexv (k_tetr_project x)) (hexv x).
Proof. intros k Hk. pose proof sqrt2_pos. each21 k ltac:(unf; try reflexivity; field; lra). Qed.

(* the isotropic plane (spanned by the bulk and shear directions) lies in range hex *)
Definition iso_vec (K G : R) : V :=
  mk_arr 0 [K + 4 * G / 3; K + 4 * G / 3; K + 4 * G / 3;
            sqrt 2 * (K - 2 * G / 3); sqrt 2 * (K - 2 * G / 3); sqrt 2 * (K - 2 * G / 3);
            2 * G; 2 * G; 2 * G; 0; 0; 0; 0; 0; 0; 0; 0; 0; 0; 0; 0].
Theorem hex_iso K G : veq (hexv (iso_vec K G)) (iso_vec K G).
Proof. intros k Hk; each21 k ltac:(unf; lazy [iso_vec mk_arr nth]; try reflexivity; sfield). Qed.

(* ---- Pythagoras for each projector:  |y|^2 = |y - P y|^2 + |P y|^2 ---- *)
Theorem mono_pythagoras (y : arr NumR) :
  sumsq 21 y = sumsq 21 (vsub y (k_mono_project y)) + sumsq 21 (k_mono_project y).
Proof. cbv [sumsq seq fold_right]; unf; ring. Qed.
Theorem ortho_pythagoras (y : arr NumR) :
  sumsq 21 y = sumsq 21 (vsub y (k_ortho_project y)) + sumsq 21 (k_ortho_project y).
Proof. cbv [sumsq seq fold_right]; unf; ring. Qed.
Theorem tetr_pythagoras (y : arr NumR) :
  sumsq 21 y = sumsq 21 (vsub y (k_tetr_project y)) + sumsq 21 (k_tetr_project y).
Proof. cbv [sumsq seq fold_right]; unf; field. Qed.
Theorem hex_pythagoras (y : arr NumR) :
  sumsq 21 y = sumsq 21 (vsub y (hexv y)) + sumsq 21 (hexv y).
Proof. cbv [sumsq seq fold_right]; unf; sfield. Qed.

(* the chain exactly as elasticity_components computes it *)
Theorem pythagoras_chain (x : arr NumR) :
  let m := k_mono_project x in let o := k_ortho_project m in
  let t := k_tetr_project o in let h := hexv t in
  sumsq 21 x = sumsq 21 (vsub x m) + sumsq 21 (vsub m o) + sumsq 21 (vsub o t)
               + sumsq 21 (vsub t h) + sumsq 21 h.
Proof.
  intros m o t h. subst h t o m.
  rewrite (mono_pythagoras x) at 1.
  rewrite (ortho_pythagoras (k_mono_project x)) at 1.
  rewrite (tetr_pythagoras (k_ortho_project (k_mono_project x))) at 1.
  rewrite (hex_pythagoras (k_tetr_project (k_ortho_project (k_mono_project x)))) at 1.
  ring.
Qed.

(* orthogonal projection onto the isotropic plane, as the code builds it from K and G *)
Definition uK : V := iso_vec 1 0.
Definition uG : V := iso_vec 0 1.
Lemma iso_vec_lin K G : veq (iso_vec K G) (vlin K uK G uG).
Proof. intros k Hk; each21 k ltac:(lazy [iso_vec uK uG vlin mk_arr nth]; numR; field). Qed.
