(* Proofs_voigt_gen.v -- transfer from the list model of voigt_averages to the GENERATED configurations
   (gen/Gen_voigt.v, tie T): the instance lemmas of Inst_voigt*.v say
       k_voigt_<cfg> args = flat_res (voigt_averages <minerals of cfg> ...),
   and `flat_res` only lays the list of 6x6 result matrices out as the (ns, 6, 6) block the code returns.  Hence
   whatever is proved about the model's result (Properties/C10.v: weighted sum, symmetry, moduli, co-rotation,
   order independence, rejection) holds for the block a generated configuration returns, entry by entry. *)
From Coq Require Import Reals ZArith List Lia Arith.
From PV Require Import Num NumR Model_voigt Proofs_voigt Inst_voigt.
Import ListNotations.
Open Scope R_scope.

Lemma arr_to_list_nth (a : arr NumR) n k : (k < n)%nat -> nth k (arr_to_list n a) 0 = a k.
Proof.
  intros H. unfold arr_to_list. rewrite (nth_indep _ _ (a 0%nat)) by (rewrite map_length, seq_length; exact H).
  rewrite map_nth, seq_nth by exact H. reflexivity.
Qed.

Lemma flat_block_nth (res : list (arr NumR)) : forall i k, (i < length res)%nat -> (k < 36)%nat ->
  nth (36 * i + k) (flat_map (arr_to_list 36) res) 0 = nth i res zeroA k.
Proof.
  induction res as [|a res IH]; intros i k Hi Hk; [cbn in Hi; lia|].
  cbn [flat_map]. destruct i as [|i].
  - replace (36 * 0 + k)%nat with k by lia.
    rewrite app_nth1 by (unfold arr_to_list; rewrite map_length, seq_length; exact Hk).
    cbn [nth]. apply arr_to_list_nth, Hk.
  - rewrite app_nth2 by (unfold arr_to_list; rewrite map_length, seq_length; lia).
    unfold arr_to_list at 1. rewrite map_length, seq_length.
    replace (36 * S i + k - 36)%nat with (36 * i + k)%nat by lia.
    cbn [nth length] in *. apply IH; lia.
Qed.

(* a generated configuration returns the block of the model's matrices ... *)
Theorem generated_block_is_model_result (r : res (list (arr NumR))) (a : arr NumR) :
  flat_res r = Ok a ->
  exists res, r = Ok res /\
    forall i k, (i < length res)%nat -> (k < 36)%nat -> a (36 * i + k)%nat = nth i res zeroA k.
Proof.
  destruct r as [res|e]; cbn [flat_res]; intros H; inversion H; subst a.
  exists res. split; [reflexivity|]. intros i k Hi Hk. unfold mk_arr. apply flat_block_nth; assumption.
Qed.

(* ... and raises exactly what the model raises *)
Theorem generated_error_is_model_error (r : res (list (arr NumR))) (e : err) :
  flat_res r = Err e <-> r = Err e.
Proof. destruct r; cbn [flat_res]; split; intros H; inversion H; reflexivity. Qed.

(* an example of the transfer, for EVERY configuration at once: the block returned by generated code that is
   an instance of the model (hypothesis E = the instance lemma of that configuration) consists of symmetric
   6x6 matrices *)
Theorem generated_block_symmetric (G : res (arr NumR)) tensors assemblage phis (ms : list (@mineral NumR)) a :
  G = flat_res (voigt_averages ms assemblage phis tensors) -> G = Ok a ->
  forall i j k, (i < n_steps ms)%nat -> (j < 6)%nat -> (k < 6)%nat ->
    a (36 * i + (6 * j + k))%nat = a (36 * i + (6 * k + j))%nat.
Proof.
  intros E Ha i j k Hi Hj Hk. rewrite E in Ha.
  destruct (generated_block_is_model_result _ _ Ha) as (res & Er & Hb).
  destruct (avg_is_weighted_sum _ _ _ _ _ Er) as (Hl & _).
  pose proof (avg_symmetric _ _ _ _ _ Er i Hi) as Hs.
  rewrite !Hb by (rewrite ?Hl; lia || nia).
  apply (Hs j k Hj Hk).
Qed.
