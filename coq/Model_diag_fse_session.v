(* Model_diag_fse_session.v -- finite_strain inside a process: a history of calls on live 3x3
   deformation-gradient objects that the caller updates IN PLACE between the calls (group `diag`, C13).

   Pathline post-processing keeps ONE deformation-gradient array per tracer and updates it step by
   step (`F[...] = F @ Q`, `F[...] = Q @ F`, `F *= c`, `F[...] = G`, `F[...] = F.T`), calling
   `finite_strain(F)` after every step.  Whether a result can depend on what was called earlier, or
   on WHICH object holds the values, is not expressible in the one-call model `Model_diag.finite_strain`;
   it is expressed here, in the same way as Model_diag_session does for the texture diagnostics:

   * `fstore`      the live 3x3 arrays (position = identity of the object, entry = current contents);
   * `fop`         one step of a history: an in-place update of an object or a `finite_strain` call;
   * `fstep memo`  the transition; `memo = false` is the source as it is (F.F^T is recomputed from the
                   current contents on every call), `memo = true` an implementation that remembers
                   F.F^T per object identity and never invalidates it (refuted in Proofs_diag_fse_session);
   * `fout`        what a call does that is observable: the matrix handed to LAPACK, the returned
                   value and axis.
   Tied to /repo by the finite-strain call sequences of harness/props/c13.py.  No proofs in this file. *)
From Coq Require Import ZArith List Bool.
From PV Require Import Num Model_diag Model_diag_session.
Import ListNotations.
Local Open Scope num_scope.

Section FseSession.
  Context {F : Num}.

  Definition fstore : Type := list (@mat3 F).
  Definition fobj (st : fstore) (b : nat) : @mat3 F := nth b st zero_m3.

  Fixpoint set_obj (st : fstore) (b : nat) (M : @mat3 F) : fstore :=
    match st, b with
    | [], _ => []
    | _ :: t, O => M :: t
    | x :: t, S b' => x :: set_obj t b' M
    end.

  (* F *= c *)
  Definition scale_m3 (c : F) (M : @mat3 F) : @mat3 F :=
    let '(a, b, d) := M in (scalev c a, scalev c b, scalev c d).

  Inductive fop :=
  | FSet (b : nat) (M : @mat3 F)      (* F[...] = M *)
  | FRight (b : nat) (Q : @mat3 F)    (* F[...] = F @ Q *)
  | FLeft (b : nat) (Q : @mat3 F)     (* F[...] = Q @ F *)
  | FScale (b : nat) (c : F)          (* F *= c *)
  | FTransp (b : nat)                 (* F[...] = F.T.copy() *)
  | FCopy (b src : nat)               (* F_b[...] = F_src *)
  | FStrain (b : nat).                (* finite_strain(F_b) *)

  Definition is_update (o : fop) : bool := match o with FStrain _ => false | _ => true end.

  Definition fmutate (st : fstore) (o : fop) : fstore :=
    match o with
    | FSet b M => set_obj st b M
    | FRight b Q => set_obj st b (mmul (fobj st b) Q)
    | FLeft b Q => set_obj st b (mmul Q (fobj st b))
    | FScale b c => set_obj st b (scale_m3 c (fobj st b))
    | FTransp b => set_obj st b (transpose (fobj st b))
    | FCopy b src => set_obj st b (fobj st src)
    | FStrain _ => st
    end.

  Definition fstore_after (st : fstore) (h : list fop) : fstore := fold_left fmutate h st.

  Inductive fout := OFse (B : @sym3 F) (v : F) (ax : @vec3 F).

  Definition fcache : Type := list (nat * @sym3 F).
  Fixpoint flookup (c : fcache) (b : nat) : option (@sym3 F) :=
    match c with
    | [] => None
    | (b', B) :: t => if Nat.eqb b b' then Some B else flookup t b
    end.

  Definition lcg_of (memo : bool) (st : fstore) (c : fcache) (b : nat) : @sym3 F * fcache :=
    if memo then
      match flookup c b with
      | Some B => (B, c)
      | None => let B := left_cauchy_green (fobj st b) in (B, (b, B) :: c)
      end
    else (left_cauchy_green (fobj st b), c).

  Variable eigh : @sym3 F -> @eigres F.

  Definition fstep (memo : bool) (s : fstore * fcache) (o : fop) : (fstore * fcache) * list fout :=
    let '(st, c) := s in
    match o with
    | FStrain b =>
        let '(B, c1) := lcg_of memo st c b in
        ((st, c1), [OFse B (nsqrt (last_val (eigh B)) - one) (last_vec (eigh B))])
    | _ => ((fmutate st o, c), [])
    end.

  Fixpoint frun (memo : bool) (s : fstore * fcache) (h : list fop) : list fout :=
    match h with
    | [] => []
    | o :: t => let '(s', out) := fstep memo s o in out ++ frun memo s' t
    end.

  (* every call is the ONE-CALL model function of the contents its argument has at that time *)
  Definition fpure_out (st : fstore) (o : fop) : list fout :=
    match o with
    | FStrain b =>
        let Fm := fobj st b in
        [OFse (left_cauchy_green Fm) (fst (finite_strain eigh Fm)) (snd (finite_strain eigh Fm))]
    | _ => []
    end.

  Fixpoint fpure_run (st : fstore) (h : list fop) : list fout :=
    match h with
    | [] => []
    | o :: t => fpure_out st o ++ fpure_run (fmutate st o) t
    end.

  Definition lcgs_of (l : list fout) : list (@sym3 F) := map (fun o => let 'OFse B _ _ := o in B) l.
End FseSession.
