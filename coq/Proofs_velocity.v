(* Proofs_velocity.v -- lemmas about the generated kernels of pydrex.velocity (R instance):
   closed forms of the three planar flows, their partial derivatives (Coquelicot is_derive),
   characterisation of the generated velocity / gradient kernels for the six index pairs,
   the axis-letter table, strain_increment over the eigenvalue oracle. *)
From Coq Require Import Reals ZArith List Bool Lra Lia Psatz.
From Coquelicot Require Import Coquelicot.
From PV Require Import Num NumR Model_pathlines.
From PV.gen Require Import Gen_velocity Gen_velocity_utils.
Import ListNotations.
Open Scope R_scope.

(* ------------------------------------------------------------------------- *)
(* planar fields on R^3 and their Jacobians                                  *)
(* ------------------------------------------------------------------------- *)
Definition pair_ok (i j : nat) : Prop := (i < 3 /\ j < 3 /\ i <> j)%nat.

(* x with coordinate m replaced by s *)
Definition upd (x : arr R) (m : nat) (s : R) : arr R := fun k => if Nat.eqb k m then s else x k.

(* component i = fh (x i) (x j), component j = fv (x i) (x j), the third component 0 *)
Definition planar (i j : nat) (fh fv : R -> R -> R) (x : arr R) (k : nat) : R :=
  if Nat.eqb k i then fh (x i) (x j) else if Nat.eqb k j then fv (x i) (x j) else 0.

(* entry (k, m) of a 3x3 matrix whose only non-zero entries are (i,i) (i,j) (j,i) (j,j) *)
Definition planar_mat (i j : nat) (ghh ghv gvh gvv : R) (k m : nat) : R :=
  if Nat.eqb k i then (if Nat.eqb m i then ghh else if Nat.eqb m j then ghv else 0)
  else if Nat.eqb k j then (if Nat.eqb m i then gvh else if Nat.eqb m j then gvv else 0)
  else 0.

Lemma planar_derive i j (fh fv : R -> R -> R) (x : arr R) (ghh ghv gvh gvv : R) : i <> j ->
  is_derive (fun s => fh s (x j)) (x i) ghh -> is_derive (fun s => fh (x i) s) (x j) ghv ->
  is_derive (fun s => fv s (x j)) (x i) gvh -> is_derive (fun s => fv (x i) s) (x j) gvv ->
  forall k m, is_derive (fun s => planar i j fh fv (upd x m s) k) (x m)
                        (planar_mat i j ghh ghv gvh gvv k m).
Proof.
  intros Hij Dhh Dhv Dvh Dvv k m.
  assert (Eji : Nat.eqb j i = false) by (apply Nat.eqb_neq; auto).
  assert (Eij : Nat.eqb i j = false) by (apply Nat.eqb_neq; auto).
  unfold planar, planar_mat, upd.
  destruct (Nat.eqb_spec m i) as [->|Hmi]; [|destruct (Nat.eqb_spec m j) as [->|Hmj]].
  - (* derivative with respect to x_i *)
    rewrite Nat.eqb_refl, Eji.
    destruct (Nat.eqb k i); [exact Dhh|]. destruct (Nat.eqb k j); [exact Dvh|].
    apply (is_derive_const (K := R_AbsRing) (V := R_NormedModule) 0).
  - (* derivative with respect to x_j *)
    rewrite Nat.eqb_refl, Eij.
    destruct (Nat.eqb k i); [exact Dhv|]. destruct (Nat.eqb k j); [exact Dvv|].
    apply (is_derive_const (K := R_AbsRing) (V := R_NormedModule) 0).
  - (* derivative with respect to the third coordinate *)
    assert (Eim : Nat.eqb i m = false) by (apply Nat.eqb_neq; auto).
    assert (Ejm : Nat.eqb j m = false) by (apply Nat.eqb_neq; auto).
    rewrite Eim, Ejm.
    destruct (Nat.eqb k i); [|destruct (Nat.eqb k j)];
      apply (is_derive_const (K := R_AbsRing) (V := R_NormedModule)).
Qed.

Definition trace3 (G : nat -> nat -> R) : R := G 0%nat 0%nat + G 1%nat 1%nat + G 2%nat 2%nat.

Lemma planar_mat_trace i j a b c d : pair_ok i j -> trace3 (planar_mat i j a b c d) = a + d.
Proof.
  intros (Hi & Hj & Hij). unfold trace3, planar_mat.
  destruct i as [|[|[|i]]]; destruct j as [|[|[|j]]]; try lia; cbn [Nat.eqb]; ring.
Qed.

Ltac three k H := destruct k as [|[|[|k]]]; [ | | | exfalso; lia ]; clear H.
Ltac six_pairs i j H :=
  destruct H as (?Hi & ?Hj & ?Hij);
  destruct i as [|[|[|i]]]; [ | | | exfalso; lia ];
  (destruct j as [|[|[|j]]]; [ | | | exfalso; lia ]); try (exfalso; lia).

(* ------------------------------------------------------------------------- *)
(* the axis-letter table                                                     *)
(* ------------------------------------------------------------------------- *)
Definition letter_ok (l : Z) : Prop := (0 <= l <= 2)%Z.

Lemma idx_of_0 : @idx_of NumR 0 = 0%nat.
Proof. unfold idx_of. numR. destruct (Reqb 0 0) eqn:E; bool2prop; [reflexivity|lra]. Qed.
Lemma idx_of_1 : @idx_of NumR 1 = 1%nat.
Proof.
  unfold idx_of. numR. destruct (Reqb 1 0) eqn:E; bool2prop; [lra|].
  destruct (Reqb 1 1) eqn:E1; bool2prop; [reflexivity|lra].
Qed.
Lemma idx_of_2 : @idx_of NumR 2 = 2%nat.
Proof.
  unfold idx_of. numR. destruct (Reqb 2 0) eqn:E; bool2prop; [lra|].
  destruct (Reqb 2 1) eqn:E1; bool2prop; [lra|reflexivity].
Qed.

(* the generated table itself: 9 letter pairs, by computation *)
Lemma table_XY : @k_to_indices2d_ord NumR 0 1 = Ok (mk_arr 0 [0; 1]). Proof. reflexivity. Qed.
Lemma table_XZ : @k_to_indices2d_ord NumR 0 2 = Ok (mk_arr 0 [0; 2]). Proof. reflexivity. Qed.
Lemma table_YX : @k_to_indices2d_ord NumR 1 0 = Ok (mk_arr 0 [1; 0]). Proof. reflexivity. Qed.
Lemma table_YZ : @k_to_indices2d_ord NumR 1 2 = Ok (mk_arr 0 [1; 2]). Proof. reflexivity. Qed.
Lemma table_ZX : @k_to_indices2d_ord NumR 2 0 = Ok (mk_arr 0 [2; 0]). Proof. reflexivity. Qed.
Lemma table_ZY : @k_to_indices2d_ord NumR 2 1 = Ok (mk_arr 0 [2; 1]). Proof. reflexivity. Qed.
Lemma table_XX : @k_to_indices2d_ord NumR 0 0 = Err ValueError. Proof. reflexivity. Qed.
Lemma table_YY : @k_to_indices2d_ord NumR 1 1 = Err ValueError. Proof. reflexivity. Qed.
Lemma table_ZZ : @k_to_indices2d_ord NumR 2 2 = Err ValueError. Proof. reflexivity. Qed.

Definition no_neg_edge (flow : Z) (ps : list R) : Prop :=
  match flow, ps with 1%Z, [_; d] => 0 <= d | _, _ => True end.

(* all 9 letter pairs: the 6 with distinct letters map to (ordinal h, ordinal v), the 3
   with equal letters are rejected *)
Theorem axes_map_proof (flow hl vl : Z) (ps : list R) : letter_ok hl -> letter_ok vl ->
  no_neg_edge flow ps ->
  @wrapper_indices NumR flow hl vl ps
  = if Z.eqb hl vl then Err ValueError else Ok (Z.to_nat hl, Z.to_nat vl).
Proof.
  intros Hh Hv Hd. unfold wrapper_indices.
  assert (Hneg : @neg_edge NumR flow ps = false).
  { unfold no_neg_edge in Hd. unfold neg_edge. destruct flow as [|[p|p|]|]; try reflexivity.
    destruct ps as [|a [|d [|e ps]]]; try reflexivity. numR.
    destruct (Rltb d 0) eqn:E; bool2prop; [lra|reflexivity]. }
  rewrite Hneg. unfold letter_ok in *.
  assert (hl = 0 \/ hl = 1 \/ hl = 2)%Z as [->|[->| ->]] by lia;
  assert (vl = 0 \/ vl = 1 \/ vl = 2)%Z as [->|[->| ->]] by lia;
  cbn [Z.eqb Pos.eqb Z.to_nat Pos.to_nat Pos.iter_op Nat.add];
  first [ rewrite table_XY | rewrite table_XZ | rewrite table_YX | rewrite table_YZ
        | rewrite table_ZX | rewrite table_ZY | rewrite table_XX | rewrite table_YY | rewrite table_ZZ ];
  try reflexivity; unfold mk_arr; cbn [nth];
  rewrite ?idx_of_0, ?idx_of_1, ?idx_of_2; reflexivity.
Qed.

Lemma wrapper_indices_pair (flow hl vl : Z) (ps : list R) i j : letter_ok hl -> letter_ok vl ->
  no_neg_edge flow ps -> @wrapper_indices NumR flow hl vl ps = Ok (i, j) ->
  pair_ok i j /\ i = Z.to_nat hl /\ j = Z.to_nat vl.
Proof.
  intros Hh Hv Hd E. rewrite (axes_map_proof flow hl vl ps Hh Hv Hd) in E.
  destruct (Z.eqb_spec hl vl) as [|Hne]; [discriminate|]. injection E as <- <-.
  unfold letter_ok, pair_ok in *. repeat split; lia.
Qed.

(* cell_2d rejects a negative edge length *)
Lemma cell_negative_edge_rejected hl vl (u d : R) : d < 0 ->
  @wrapper_indices NumR 1 hl vl [u; d] = Err ValueError.
Proof.
  intros Hd. unfold wrapper_indices, neg_edge. numR.
  destruct (Rltb d 0) eqn:E; bool2prop; [reflexivity|lra].
Qed.

(* ------------------------------------------------------------------------- *)
(* simple shear                                                              *)
(* ------------------------------------------------------------------------- *)
Definition shear_uh (rate : R) (h v : R) : R := v * rate.
Definition shear_uv (rate : R) (h v : R) : R := 0.
Definition shear_field (i j : nat) (rate : R) : arr R -> nat -> R :=
  planar i j (shear_uh rate) (shear_uv rate).

Lemma shear_velocity_char i j rate t (x : arr R) : pair_ok i j ->
  exists a, @kernel_velocity NumR 0 i j [rate] t x = Ok a /\
    forall k, (k < 3)%nat -> a k = shear_field i j rate x k.
Proof.
  intros H. six_pairs i j H; cbn [kernel_velocity]; eexists; (split; [reflexivity|]);
    intros k Hk; three k Hk; reflexivity.
Qed.

(* the gradient callable has the single non-zero entry (i, j) = 2 * strain_rate *)
Lemma shear_gradient_char i j rate t (x : arr R) : pair_ok i j ->
  exists G, @kernel_gradient NumR 0 i j [rate] t x = Ok G /\
    forall k m, (k < 3)%nat -> (m < 3)%nat ->
      G (3 * k + m)%nat = planar_mat i j 0 (2 * rate) 0 0 k m.
Proof.
  intros H. six_pairs i j H; cbn [kernel_gradient]; eexists; (split; [reflexivity|]);
    intros k m Hk Hm; three k Hk; three m Hm; reflexivity.
Qed.

Lemma shear_jacobian i j rate (x : arr R) : i <> j ->
  forall k m, is_derive (fun s => shear_field i j rate (upd x m s) k) (x m)
                        (planar_mat i j 0 rate 0 0 k m).
Proof.
  intros Hij. apply planar_derive; [exact Hij| | | |]; unfold shear_uh, shear_uv.
  - apply (is_derive_const (K := R_AbsRing) (V := R_NormedModule)).
  - auto_derive; [exact I|ring].
  - apply (is_derive_const (K := R_AbsRing) (V := R_NormedModule)).
  - apply (is_derive_const (K := R_AbsRing) (V := R_NormedModule)).
Qed.

Lemma planar_mat_double i j b k m :
  planar_mat i j 0 (2 * b) 0 0 k m = 2 * planar_mat i j 0 b 0 0 k m.
Proof.
  unfold planar_mat. destruct (Nat.eqb k i), (Nat.eqb k j), (Nat.eqb m i), (Nat.eqb m j); ring.
Qed.

(* what holds of the current code: gradient = 2 x Jacobian of the velocity, trace-free *)
Theorem shear_partial_proof (hl vl : Z) (rate t : R) (x : arr R) i j :
  letter_ok hl -> letter_ok vl -> @wrapper_indices NumR 0 hl vl [rate] = Ok (i, j) ->
  exists a G, @wrapper_velocity NumR 0 hl vl [rate] t x = Ok a /\
              @wrapper_gradient NumR 0 hl vl [rate] t x = Ok G /\
    (forall k, (k < 3)%nat -> a k = shear_field i j rate x k) /\
    (forall k m, (k < 3)%nat -> (m < 3)%nat ->
       exists J, is_derive (fun s => shear_field i j rate (upd x m s) k) (x m) J /\
                 G (3 * k + m)%nat = 2 * J) /\
    G 0%nat + G 4%nat + G 8%nat = 0.
Proof.
  intros Hh Hv E.
  destruct (wrapper_indices_pair 0 hl vl [rate] i j Hh Hv I E) as (Hp & _ & _).
  destruct (shear_velocity_char i j rate t x Hp) as (a & Ea & Ha).
  destruct (shear_gradient_char i j rate t x Hp) as (G & EG & HG).
  exists a, G. unfold wrapper_velocity, wrapper_gradient. rewrite E.
  split; [exact Ea|]. split; [exact EG|]. split; [exact Ha|]. split.
  - intros k m Hk Hm. exists (planar_mat i j 0 rate 0 0 k m). split.
    + apply shear_jacobian. apply Hp.
    + rewrite (HG k m Hk Hm). apply planar_mat_double.
  - pose proof (planar_mat_trace i j 0 (2 * rate) 0 0 Hp) as Ht. unfold trace3 in Ht.
    rewrite <- (HG 0 0)%nat, <- (HG 1 1)%nat, <- (HG 2 2)%nat in Ht by lia.
    cbn [Nat.mul Nat.add] in Ht. lra.
Qed.

(* ------------------------------------------------------------------------- *)
(* Stokes cell                                                               *)
(* ------------------------------------------------------------------------- *)
Definition cell_uh (u d : R) (h v : R) : R := u * cos (PI * h / d) * sin (PI * v / d).
Definition cell_uv (u d : R) (h v : R) : R := - u * sin (PI * h / d) * cos (PI * v / d).
Definition cell_field (i j : nat) (u d : R) : arr R -> nat -> R :=
  planar i j (cell_uh u d) (cell_uv u d).

(* partial derivatives of the two components *)
Definition cell_dh_uh (u d h v : R) : R := - u * (PI / d) * sin (PI * h / d) * sin (PI * v / d).
Definition cell_dv_uh (u d h v : R) : R := u * (PI / d) * cos (PI * h / d) * cos (PI * v / d).
Definition cell_dh_uv (u d h v : R) : R := - u * (PI / d) * cos (PI * h / d) * cos (PI * v / d).
Definition cell_dv_uv (u d h v : R) : R := u * (PI / d) * sin (PI * h / d) * sin (PI * v / d).

Definition in_cell (d h v : R) : Prop := Rabs h <= d / 2 /\ Rabs v <= d / 2 /\ d <> 0.

Lemma cell_derivs u d h v : d <> 0 ->
  is_derive (fun s => cell_uh u d s v) h (cell_dh_uh u d h v) /\
  is_derive (fun s => cell_uh u d h s) v (cell_dv_uh u d h v) /\
  is_derive (fun s => cell_uv u d s v) h (cell_dh_uv u d h v) /\
  is_derive (fun s => cell_uv u d h s) v (cell_dv_uv u d h v).
Proof.
  intros Hd. unfold cell_uh, cell_uv, cell_dh_uh, cell_dv_uh, cell_dh_uv, cell_dv_uv.
  split; [|split; [|split]]; (auto_derive; [exact I|unfold Rdiv; ring]).
Qed.

Lemma cell_jacobian i j u d (x : arr R) : i <> j -> d <> 0 ->
  forall k m, is_derive (fun s => cell_field i j u d (upd x m s) k) (x m)
    (planar_mat i j (cell_dh_uh u d (x i) (x j)) (cell_dv_uh u d (x i) (x j))
                    (cell_dh_uv u d (x i) (x j)) (cell_dv_uv u d (x i) (x j)) k m).
Proof.
  intros Hij Hd. destruct (cell_derivs u d (x i) (x j) Hd) as (A & B & C & D).
  apply planar_derive; assumption.
Qed.

Ltac split_ifs :=
  repeat match goal with
  | |- context [if ?b then _ else _] => let E := fresh "E" in destruct b eqn:E
  end.

Lemma cell_velocity_char i j u d t (x : arr R) : pair_ok i j -> in_cell d (x i) (x j) ->
  exists a, @kernel_velocity NumR 1 i j [u; d] t x = Ok a /\
    forall k, (k < 3)%nat -> a k = cell_field i j u d x k.
Proof.
  intros H (Hh & Hv & Hd).
  six_pairs i j H; cbn [kernel_velocity];
  cbv [k_cell_2d_01 k_cell_2d_02 k_cell_2d_10 k_cell_2d_12 k_cell_2d_20 k_cell_2d_21]; numR;
  split_ifs; bool2prop; try lra;
  (eexists; split; [reflexivity|]); intros k Hk; three k Hk;
  unfold cell_field, planar, cell_uh, cell_uv, mk_arr; cbn [nth Nat.eqb]; ring.
Qed.

(* outside the box the velocity callable raises ValueError (both tests) *)
Lemma cell_velocity_outside i j u d t (x : arr R) : pair_ok i j ->
  d / 2 < Rabs (x i) \/ d / 2 < Rabs (x j) ->
  @kernel_velocity NumR 1 i j [u; d] t x = Err ValueError /\
  @kernel_gradient NumR 1 i j [u; d] t x = Err ValueError.
Proof.
  intros H Ho.
  six_pairs i j H; cbn [kernel_velocity kernel_gradient];
  cbv [k_cell_2d_01 k_cell_2d_02 k_cell_2d_10 k_cell_2d_12 k_cell_2d_20 k_cell_2d_21
       k_cell_2d_grad_01 k_cell_2d_grad_02 k_cell_2d_grad_10 k_cell_2d_grad_12
       k_cell_2d_grad_20 k_cell_2d_grad_21]; numR;
  split_ifs; bool2prop; try (split; reflexivity); exfalso; destruct Ho; lra.
Qed.

(* the generated gradient: horizontal row = (dh uh, dv uh); vertical row = (dv uv, dh uv),
   i.e. the two entries of the vertical row of the Jacobian EXCHANGED *)
Lemma cell_gradient_char i j u d t (x : arr R) : pair_ok i j -> in_cell d (x i) (x j) ->
  exists G, @kernel_gradient NumR 1 i j [u; d] t x = Ok G /\
    forall k m, (k < 3)%nat -> (m < 3)%nat ->
      G (3 * k + m)%nat =
      planar_mat i j (cell_dh_uh u d (x i) (x j)) (cell_dv_uh u d (x i) (x j))
                     (cell_dv_uv u d (x i) (x j)) (cell_dh_uv u d (x i) (x j)) k m.
Proof.
  intros H (Hh & Hv & Hd).
  six_pairs i j H; cbn [kernel_gradient];
  cbv [k_cell_2d_grad_01 k_cell_2d_grad_02 k_cell_2d_grad_10 k_cell_2d_grad_12
       k_cell_2d_grad_20 k_cell_2d_grad_21]; numR;
  split_ifs; bool2prop; try lra;
  (eexists; split; [reflexivity|]); intros k m Hk Hm; three k Hk; three m Hm;
  unfold planar_mat, cell_dh_uh, cell_dv_uh, cell_dh_uv, cell_dv_uv, mk_arr;
  cbn [nth Nat.eqb Nat.mul Nat.add]; field; exact Hd.
Qed.

Theorem cell_partial_proof (hl vl : Z) (u d t : R) (x : arr R) i j :
  letter_ok hl -> letter_ok vl -> @wrapper_indices NumR 1 hl vl [u; d] = Ok (i, j) ->
  in_cell d (x i) (x j) ->
  exists a G, @wrapper_velocity NumR 1 hl vl [u; d] t x = Ok a /\
              @wrapper_gradient NumR 1 hl vl [u; d] t x = Ok G /\
    (forall k, (k < 3)%nat -> a k = cell_field i j u d x k) /\
    (* every row but the vertical one is the Jacobian row *)
    (forall k m, (k < 3)%nat -> (m < 3)%nat -> k <> j ->
       is_derive (fun s => cell_field i j u d (upd x m s) k) (x m) (G (3 * k + m)%nat)) /\
    (* vertical row: the (v,v) entry is d u_v / d x_h, the (v,h) entry is d u_v / d x_v *)
    is_derive (fun s => cell_field i j u d (upd x i s) j) (x i) (G (3 * j + j)%nat) /\
    is_derive (fun s => cell_field i j u d (upd x j s) j) (x j) (G (3 * j + i)%nat) /\
    (forall m, (m < 3)%nat -> m <> i -> m <> j -> G (3 * j + m)%nat = 0).
Proof.
  intros Hh Hv E Hin.
  assert (Hd : no_neg_edge 1 [u; d]).
  { unfold no_neg_edge. destruct Hin as (A & _ & _). pose proof (Rabs_pos (x i)). lra. }
  destruct (wrapper_indices_pair 1 hl vl [u; d] i j Hh Hv Hd E) as (Hp & _ & _).
  destruct (cell_velocity_char i j u d t x Hp Hin) as (a & Ea & Ha).
  destruct (cell_gradient_char i j u d t x Hp Hin) as (G & EG & HG).
  exists a, G. unfold wrapper_velocity, wrapper_gradient. rewrite E.
  assert (Hdn : d <> 0) by apply Hin.
  assert (Hij : i <> j) by apply Hp.
  pose proof (cell_jacobian i j u d x Hij Hdn) as HJ.
  assert (Hi3 : (i < 3)%nat) by apply Hp. assert (Hj3 : (j < 3)%nat) by apply Hp.
  assert (Eji : Nat.eqb j i = false) by (apply Nat.eqb_neq; auto).
  split; [exact Ea|]. split; [exact EG|]. split; [exact Ha|].
  split; [|split; [|split]].
  - intros k m Hk Hm Hkj. rewrite (HG k m Hk Hm).
    replace (planar_mat i j _ _ _ _ k m) with
      (planar_mat i j (cell_dh_uh u d (x i) (x j)) (cell_dv_uh u d (x i) (x j))
                      (cell_dh_uv u d (x i) (x j)) (cell_dv_uv u d (x i) (x j)) k m); [apply HJ|].
    unfold planar_mat. destruct (Nat.eqb k i); [reflexivity|].
    destruct (Nat.eqb_spec k j); [contradiction|reflexivity].
  - rewrite (HG j j Hj3 Hj3). specialize (HJ j i).
    unfold planar_mat in *. rewrite Eji, !Nat.eqb_refl in *. exact HJ.
  - rewrite (HG j i Hj3 Hi3). specialize (HJ j j).
    unfold planar_mat in *. rewrite Eji, !Nat.eqb_refl in *. exact HJ.
  - intros m Hm Hmi Hmj. rewrite (HG j m Hj3 Hm). unfold planar_mat.
    rewrite Eji, Nat.eqb_refl.
    destruct (Nat.eqb_spec m i); [contradiction|]. destruct (Nat.eqb_spec m j); [contradiction|reflexivity].
Qed.

(* the trace of the generated cell gradient *)
Lemma cell_trace i j u d t (x : arr R) G : pair_ok i j -> in_cell d (x i) (x j) ->
  @kernel_gradient NumR 1 i j [u; d] t x = Ok G ->
  G 0%nat + G 4%nat + G 8%nat = - u * (PI / d) * cos (PI * (x i) / d - PI * (x j) / d).
Proof.
  intros Hp Hin E. destruct (cell_gradient_char i j u d t x Hp Hin) as (G' & EG & HG).
  rewrite E in EG. injection EG as <-.
  pose proof (planar_mat_trace i j (cell_dh_uh u d (x i) (x j)) (cell_dv_uh u d (x i) (x j))
                (cell_dv_uv u d (x i) (x j)) (cell_dh_uv u d (x i) (x j)) Hp) as Ht.
  unfold trace3 in Ht.
  rewrite <- (HG 0 0)%nat, <- (HG 1 1)%nat, <- (HG 2 2)%nat in Ht by lia.
  cbn [Nat.mul Nat.add] in Ht. rewrite Ht. unfold cell_dh_uh, cell_dh_uv. rewrite cos_minus. ring.
Qed.

(* ------------------------------------------------------------------------- *)
(* corner flow                                                               *)
(* ------------------------------------------------------------------------- *)
Definition corner_uh (U : R) (h v : R) : R :=
  2 * U / PI * (Ratan2 h (- v) + h * v / (h * h + v * v)).
Definition corner_uv (U : R) (h v : R) : R := 2 * U / PI * (v * v) / (h * h + v * v).
Definition corner_field (i j : nat) (U : R) : arr R -> nat -> R :=
  planar i j (corner_uh U) (corner_uv U).

Definition corner_pref (U h v : R) : R := 4 * U / (PI * ((h * h + v * v) * (h * h + v * v))).
Definition corner_ghh (U h v : R) : R := corner_pref U h v * (- (h * h) * v).
Definition corner_ghv (U h v : R) : R := corner_pref U h v * (h * h * h).
Definition corner_gvh (U h v : R) : R := corner_pref U h v * (- h * (v * v)).
Definition corner_gvv (U h v : R) : R := corner_pref U h v * (h * h * v).

(* the literal 1e-15 of the source (exact binary64 value) and the excluded box *)
Definition cut15 : R := IZR 2535301200456459 / IZR 2535301200456458802993406410752.
Lemma cut15_pos : 0 < cut15. Proof. unfold cut15. lra. Qed.
Definition corner_hole (h v : R) : Prop := Rabs h < cut15 /\ Rabs v < cut15.

Lemma Ratan2_pos_x y x : 0 < x -> Ratan2 y x = atan (y / x).
Proof. intros H. unfold Ratan2. destruct (Rlt_dec 0 x); [reflexivity|contradiction]. Qed.

Lemma corner_derivs U h v : v < 0 ->
  is_derive (fun s => corner_uh U s v) h (corner_ghh U h v) /\
  is_derive (fun s => corner_uh U h s) v (corner_ghv U h v) /\
  is_derive (fun s => corner_uv U s v) h (corner_gvh U h v) /\
  is_derive (fun s => corner_uv U h s) v (corner_gvv U h v).
Proof.
  intros Hv. pose proof PI_RGT_0 as Hpi.
  assert (Hr : h * h + v * v <> 0) by nra.
  unfold corner_uh, corner_uv, corner_ghh, corner_ghv, corner_gvh, corner_gvv, corner_pref.
  split; [|split; [|split]].
  - apply is_derive_ext with (f := fun s => 2 * U / PI * (atan (s / (- v)) + s * v / (s * s + v * v))).
    { intros s. rewrite Ratan2_pos_x by lra. reflexivity. }
    auto_derive.
    + repeat split; try lra; nra.
    + field. repeat split; try lra; nra.
  - apply is_derive_ext_loc with (f := fun s => 2 * U / PI * (atan (h / (- s)) + h * s / (h * h + s * s))).
    { assert (He : 0 < - v) by lra. exists (mkposreal (- v) He). intros s Hs.
      unfold ball in Hs; cbn in Hs. unfold AbsRing_ball, abs, minus, plus, opp in Hs; cbn in Hs.
      assert (s < 0). { apply Rabs_def2 in Hs. lra. }
      rewrite Ratan2_pos_x by lra. reflexivity. }
    auto_derive.
    + repeat split; try lra; nra.
    + field. repeat split; try lra; nra.
  - auto_derive.
    + repeat split; try lra; nra.
    + field. repeat split; try lra; nra.
  - auto_derive.
    + repeat split; try lra; nra.
    + field. repeat split; try lra; nra.
Qed.

(* off the vertical axis atan2 has a second closed form, valid across the surface v = 0 and above it:
   atan2 y x = +-pi/2 - atan (x / y) for y > 0 / y < 0 *)
Lemma atan_inv_neg z : z < 0 -> atan (/ z) = - PI / 2 - atan z.
Proof.
  intros Hz. replace (/ z) with (- / (- z)) by (field; lra).
  rewrite atan_opp, atan_inv by lra. rewrite atan_opp. lra.
Qed.

Lemma Ratan2_pos_y y x : 0 < y -> Ratan2 y x = PI / 2 - atan (x / y).
Proof.
  intros Hy. unfold Ratan2.
  assert (Hiy : 0 < / y) by (apply Rinv_0_lt_compat; exact Hy).
  destruct (Rlt_dec 0 x) as [Hx|Hx]; [|destruct (Rlt_dec x 0) as [Hx'|Hx']].
  - replace (y / x) with (/ (x / y)) by (field; split; lra).
    apply atan_inv. unfold Rdiv. nra.
  - destruct (Rle_dec 0 y) as [_|N]; [|lra].
    replace (y / x) with (/ (x / y)) by (field; split; lra).
    rewrite atan_inv_neg; [lra|]. unfold Rdiv. nra.
  - assert (x = 0) by lra. subst x. destruct (Rlt_dec 0 y); [|lra].
    unfold Rdiv. rewrite Rmult_0_l, atan_0. lra.
Qed.

Lemma Ratan2_neg_y y x : y < 0 -> Ratan2 y x = - PI / 2 - atan (x / y).
Proof.
  intros Hy. unfold Ratan2.
  assert (Hiy : / y < 0) by (apply Rinv_lt_0_compat; exact Hy).
  destruct (Rlt_dec 0 x) as [Hx|Hx]; [|destruct (Rlt_dec x 0) as [Hx'|Hx']].
  - replace (y / x) with (/ (x / y)) by (field; split; lra).
    apply atan_inv_neg. unfold Rdiv. nra.
  - destruct (Rle_dec 0 y) as [N|_]; [lra|].
    replace (y / x) with (/ (x / y)) by (field; split; lra).
    rewrite atan_inv; [lra|]. unfold Rdiv. nra.
  - assert (x = 0) by lra. subst x. destruct (Rlt_dec 0 y); [lra|]. destruct (Rlt_dec y 0); [|lra].
    unfold Rdiv. rewrite Rmult_0_l, atan_0. lra.
Qed.

(* the same four partial derivatives at every point off the vertical axis h = 0 (any sign of v: on
   the surface v = 0 and above it) *)
Lemma corner_derivs_off_axis U h v : h <> 0 ->
  is_derive (fun s => corner_uh U s v) h (corner_ghh U h v) /\
  is_derive (fun s => corner_uh U h s) v (corner_ghv U h v) /\
  is_derive (fun s => corner_uv U s v) h (corner_gvh U h v) /\
  is_derive (fun s => corner_uv U h s) v (corner_gvv U h v).
Proof.
  intros Hh. pose proof PI_RGT_0 as Hpi.
  assert (Hr : h * h + v * v <> 0) by nra.
  unfold corner_uh, corner_uv, corner_ghh, corner_ghv, corner_gvh, corner_gvv, corner_pref.
  destruct (Rlt_dec 0 h) as [Hp|Hn].
  - (* h > 0 *)
    split; [|split; [|split]].
    + apply is_derive_ext_loc with (f := fun s => 2 * U / PI * (PI / 2 - atan (- v / s) + s * v / (s * s + v * v))).
      { exists (mkposreal h Hp). intros s Hs.
        unfold ball in Hs; cbn in Hs. unfold AbsRing_ball, abs, minus, plus, opp in Hs; cbn in Hs.
        assert (0 < s). { apply Rabs_def2 in Hs. lra. }
        rewrite Ratan2_pos_y by lra. reflexivity. }
      auto_derive.
      * repeat split; try lra; nra.
      * field. repeat split; try lra; nra.
    + apply is_derive_ext with (f := fun s => 2 * U / PI * (PI / 2 - atan (- s / h) + h * s / (h * h + s * s))).
      { intros s. rewrite Ratan2_pos_y by lra. reflexivity. }
      auto_derive.
      * repeat split; try lra; nra.
      * field. repeat split; try lra; nra.
    + auto_derive.
      * repeat split; try lra; nra.
      * field. repeat split; try lra; nra.
    + auto_derive.
      * repeat split; try lra; nra.
      * field. repeat split; try lra; nra.
  - (* h < 0 *)
    assert (Hneg : h < 0) by lra. assert (Hmh : 0 < - h) by lra.
    split; [|split; [|split]].
    + apply is_derive_ext_loc with (f := fun s => 2 * U / PI * (- PI / 2 - atan (- v / s) + s * v / (s * s + v * v))).
      { exists (mkposreal (- h) Hmh). intros s Hs.
        unfold ball in Hs; cbn in Hs. unfold AbsRing_ball, abs, minus, plus, opp in Hs; cbn in Hs.
        assert (s < 0). { apply Rabs_def2 in Hs. lra. }
        rewrite Ratan2_neg_y by lra. reflexivity. }
      auto_derive.
      * repeat split; try lra; nra.
      * field. repeat split; try lra; nra.
    + apply is_derive_ext with (f := fun s => 2 * U / PI * (- PI / 2 - atan (- s / h) + h * s / (h * h + s * s))).
      { intros s. rewrite Ratan2_neg_y by lra. reflexivity. }
      auto_derive.
      * repeat split; try lra; nra.
      * field. repeat split; try lra; nra.
    + auto_derive.
      * repeat split; try lra; nra.
      * field. repeat split; try lra; nra.
    + auto_derive.
      * repeat split; try lra; nra.
      * field. repeat split; try lra; nra.
Qed.

(* the differentiability domain: everything but the half line { h = 0, v >= 0 } (on which atan2 jumps
   by 2 pi, resp. the hole of the source at the corner itself) *)
Definition corner_smooth (h v : R) : Prop := v < 0 \/ h <> 0.

(* the physical domain of the flow (at or below the surface, outside the 1e-15 hole) lies inside it *)
Lemma corner_domain_smooth h v : v <= 0 -> ~ corner_hole h v -> corner_smooth h v.
Proof.
  intros Hv Hn. unfold corner_smooth. destruct (Rlt_dec v 0) as [|Hv0]; [left; assumption|right].
  intros ->. apply Hn. assert (v = 0) by lra. subst v. pose proof cut15_pos.
  split; rewrite Rabs_R0; assumption.
Qed.

(* the exclusion is necessary: above the surface (v > 0) the velocity callable jumps by more than
   3 U across the vertical axis (atan2's branch cut), so no Jacobian exists there *)
Lemma corner_cut_jump U v h : 0 < v -> 0 < U -> h < 0 -> corner_uh U 0 v - corner_uh U h v > 3 * U.
Proof.
  intros Hv HU Hh. pose proof PI_RGT_0 as Hpi. unfold corner_uh.
  rewrite (Ratan2_neg_y h (- v) Hh).
  assert (E0 : Ratan2 0 (- v) = PI).
  { unfold Ratan2. destruct (Rlt_dec 0 (- v)); [lra|]. destruct (Rlt_dec (- v) 0); [|lra].
    destruct (Rle_dec 0 0); [|lra]. unfold Rdiv. rewrite Rmult_0_l, atan_0. lra. }
  rewrite E0. replace (0 * v / (0 * 0 + v * v)) with 0 by (field; lra).
  assert (Ha : 0 < atan (- v / h)).
  { rewrite <- atan_0. apply atan_increasing. unfold Rdiv.
    assert (/ h < 0) by (apply Rinv_lt_0_compat; exact Hh). nra. }
  assert (Hq : h * v / (h * h + v * v) < 0).
  { unfold Rdiv. assert (0 < / (h * h + v * v)) by (apply Rinv_0_lt_compat; nra).
    assert (h * v < 0) by nra. nra. }
  assert (Hk : 0 < 2 * U / PI) by (apply Rdiv_lt_0_compat; lra).
  replace (3 * U) with (2 * U / PI * (3 * PI / 2)) by (field; lra).
  rewrite <- Rmult_minus_distr_l. apply Rmult_lt_compat_l; [exact Hk|]. lra.
Qed.

Lemma corner_cut_not_derivable U v : 0 < v -> 0 < U ->
  ~ exists g, is_derive (fun s => corner_uh U s v) 0 g.
Proof.
  intros Hv HU [g Hg].
  assert (Hc : continuous (fun s => corner_uh U s v) 0).
  { apply (ex_derive_continuous (K := R_AbsRing) (V := R_NormedModule)). exists g. exact Hg. }
  pose proof (proj1 (filterlim_locally (fun s => corner_uh U s v) (corner_uh U 0 v)) Hc (mkposreal U HU)) as [d Hd].
  specialize (Hd (- (d / 2))).
  assert (Hb : ball 0 d (- (d / 2))).
  { unfold ball; cbn. unfold AbsRing_ball, abs, minus, plus, opp; cbn. destruct d as [d Hdp]; cbn.
    rewrite Rabs_left by lra. lra. }
  specialize (Hd Hb). unfold ball in Hd; cbn in Hd. unfold AbsRing_ball, abs, minus, plus, opp in Hd; cbn in Hd.
  assert (Hneg : - (d / 2) < 0) by (destruct d as [d Hdp]; cbn; lra).
  pose proof (corner_cut_jump U v (- (d / 2)) Hv HU Hneg) as Hj.
  apply Rabs_def2 in Hd. lra.
Qed.

Lemma corner_jacobian i j U (x : arr R) : i <> j -> corner_smooth (x i) (x j) ->
  forall k m, is_derive (fun s => corner_field i j U (upd x m s) k) (x m)
    (planar_mat i j (corner_ghh U (x i) (x j)) (corner_ghv U (x i) (x j))
                    (corner_gvh U (x i) (x j)) (corner_gvv U (x i) (x j)) k m).
Proof.
  intros Hij [Hv|Hh].
  - destruct (corner_derivs U (x i) (x j) Hv) as (A & B & C & D). apply planar_derive; assumption.
  - destruct (corner_derivs_off_axis U (x i) (x j) Hh) as (A & B & C & D). apply planar_derive; assumption.
Qed.

Ltac corner_unfold :=
  cbv [k_corner_2d_01 k_corner_2d_02 k_corner_2d_10 k_corner_2d_12 k_corner_2d_20 k_corner_2d_21
       k_corner_2d_grad_01 k_corner_2d_grad_02 k_corner_2d_grad_10 k_corner_2d_grad_12
       k_corner_2d_grad_20 k_corner_2d_grad_21]; numR; fold cut15.

(* the velocity callable is the closed-form field wherever it is defined *)
Lemma corner_velocity_char i j U t (x : arr R) : pair_ok i j -> ~ corner_hole (x i) (x j) ->
  exists a, @kernel_velocity NumR 2 i j [U] t x = Ok a /\
    forall k, (k < 3)%nat -> a k = corner_field i j U x k.
Proof.
  intros H Hn. pose proof PI_RGT_0 as Hpi. pose proof cut15_pos as Hc.
  assert (Hr : forall h v : R, ~ corner_hole h v -> h * h + v * v <> 0).
  { intros h v Hh E. apply Hh. assert (h = 0 /\ v = 0) as [-> ->] by (split; nra).
    split; rewrite Rabs_R0; exact Hc. }
  specialize (Hr _ _ Hn). unfold corner_hole in Hn.
  six_pairs i j H; cbn [kernel_velocity]; corner_unfold;
  split_ifs; bool2prop; try (exfalso; tauto); try (exfalso; apply Hr; lra);
  (eexists; split; [reflexivity|]); intros k Hk; three k Hk;
  unfold corner_field, planar, corner_uh, corner_uv, mk_arr; cbn [nth Nat.eqb];
  try reflexivity; field; split; lra.
Qed.

Lemma corner_hole_rejected i j U t (x : arr R) : pair_ok i j -> corner_hole (x i) (x j) ->
  @kernel_velocity NumR 2 i j [U] t x = Err NonFinite /\
  @kernel_gradient NumR 2 i j [U] t x = Err NonFinite.
Proof.
  intros H (H1 & H2).
  six_pairs i j H; cbn [kernel_velocity kernel_gradient]; corner_unfold;
  split_ifs; bool2prop; try (split; reflexivity); exfalso; lra.
Qed.

Lemma corner_gradient_char i j U t (x : arr R) : pair_ok i j -> ~ corner_hole (x i) (x j) ->
  exists G, @kernel_gradient NumR 2 i j [U] t x = Ok G /\
    forall k m, (k < 3)%nat -> (m < 3)%nat ->
      G (3 * k + m)%nat =
      planar_mat i j (corner_ghh U (x i) (x j)) (corner_ghv U (x i) (x j))
                     (corner_gvh U (x i) (x j)) (corner_gvv U (x i) (x j)) k m.
Proof.
  intros H Hn. pose proof PI_RGT_0 as Hpi. pose proof cut15_pos as Hc.
  assert (Hr : forall h v : R, ~ corner_hole h v -> h * h + v * v <> 0).
  { intros h v Hh E. apply Hh. assert (h = 0 /\ v = 0) as [-> ->] by (split; nra).
    split; rewrite Rabs_R0; exact Hc. }
  specialize (Hr _ _ Hn). unfold corner_hole in Hn.
  assert (Hq : PI * ((x i * x i + x j * x j) * (x i * x i + x j * x j)) <> 0).
  { apply Rmult_integral_contrapositive_currified; [lra|].
    apply Rmult_integral_contrapositive_currified; exact Hr. }
  six_pairs i j H; cbn [kernel_gradient]; corner_unfold;
  split_ifs; bool2prop; try (exfalso; tauto); try (exfalso; apply Hq; lra);
  (eexists; split; [reflexivity|]); intros k m Hk Hm; three k Hk; three m Hm;
  unfold planar_mat, corner_ghh, corner_ghv, corner_gvh, corner_gvv, corner_pref, mk_arr;
  cbn [nth Nat.eqb Nat.mul Nat.add]; try reflexivity; field; split; lra.
Qed.

(* the full statement for the corner flow *)
Theorem corner_grad_is_jacobian_proof (hl vl : Z) (U t : R) (x : arr R) i j :
  letter_ok hl -> letter_ok vl -> @wrapper_indices NumR 2 hl vl [U] = Ok (i, j) ->
  ~ corner_hole (x i) (x j) -> corner_smooth (x i) (x j) ->
  exists a G, @wrapper_velocity NumR 2 hl vl [U] t x = Ok a /\
              @wrapper_gradient NumR 2 hl vl [U] t x = Ok G /\
    (forall k, (k < 3)%nat -> a k = corner_field i j U x k) /\
    (forall k m, (k < 3)%nat -> (m < 3)%nat ->
       is_derive (fun s => corner_field i j U (upd x m s) k) (x m) (G (3 * k + m)%nat)) /\
    G 0%nat + G 4%nat + G 8%nat = 0.
Proof.
  intros Hh Hv E Hn Hneg.
  destruct (wrapper_indices_pair 2 hl vl [U] i j Hh Hv I E) as (Hp & _ & _).
  destruct (corner_velocity_char i j U t x Hp Hn) as (a & Ea & Ha).
  destruct (corner_gradient_char i j U t x Hp Hn) as (G & EG & HG).
  exists a, G. unfold wrapper_velocity, wrapper_gradient. rewrite E.
  split; [exact Ea|]. split; [exact EG|]. split; [exact Ha|]. split.
  - intros k m Hk Hm. rewrite (HG k m Hk Hm). apply corner_jacobian; [apply Hp|exact Hneg].
  - pose proof (planar_mat_trace i j (corner_ghh U (x i) (x j)) (corner_ghv U (x i) (x j))
                  (corner_gvh U (x i) (x j)) (corner_gvv U (x i) (x j)) Hp) as Ht.
    unfold trace3 in Ht.
    rewrite <- (HG 0 0)%nat, <- (HG 1 1)%nat, <- (HG 2 2)%nat in Ht by lia.
    cbn [Nat.mul Nat.add] in Ht. rewrite Ht. unfold corner_ghh, corner_gvv. ring.
Qed.

(* the velocity callable agrees with the field on its whole domain (any sign of x_v) *)
Theorem corner_velocity_is_field_proof (hl vl : Z) (U t : R) (x : arr R) i j :
  letter_ok hl -> letter_ok vl -> @wrapper_indices NumR 2 hl vl [U] = Ok (i, j) ->
  ~ corner_hole (x i) (x j) ->
  exists a, @wrapper_velocity NumR 2 hl vl [U] t x = Ok a /\
    forall k, (k < 3)%nat -> a k = corner_field i j U x k.
Proof.
  intros Hh Hv E Hn.
  destruct (wrapper_indices_pair 2 hl vl [U] i j Hh Hv I E) as (Hp & _ & _).
  unfold wrapper_velocity. rewrite E. apply corner_velocity_char; assumption.
Qed.

(* ------------------------------------------------------------------------- *)
(* strain increment over the eigenvalue oracle                               *)
(* ------------------------------------------------------------------------- *)
Definition sym3 (L : arr R) (k m : nat) : R := (L (3 * k + m)%nat + L (3 * m + k)%nat) / 2.

(* m is the largest absolute eigenvalue of the symmetric matrix S (the oracle hypothesis
   about numpy.linalg.eigvalsh: |.| and max over its result) *)
Definition eigpair (S : nat -> nat -> R) (lam : R) (v : nat -> R) : Prop :=
  (v 0%nat <> 0 \/ v 1%nat <> 0 \/ v 2%nat <> 0) /\
  forall k, (k < 3)%nat -> S k 0%nat * v 0%nat + S k 1%nat * v 1%nat + S k 2%nat * v 2%nat = lam * v k.
Definition is_abs_eigmax (S : nat -> nat -> R) (m : R) : Prop :=
  (exists lam v, eigpair S lam v /\ Rabs lam = m) /\
  (forall lam v, eigpair S lam v -> Rabs lam <= m).

Theorem strain_increment_def_proof (dt : R) (L : arr R) (m : R) :
  is_abs_eigmax (sym3 L) m ->
  @k_strain_increment NumR dt L m = Rabs dt * m /\ 0 <= @k_strain_increment NumR dt L m.
Proof.
  intros ((lam & v & _ & <-) & _). unfold k_strain_increment. numR. split; [reflexivity|].
  apply Rmult_le_pos; apply Rabs_pos.
Qed.

(* homogeneity in dt and in L: scaling L by c scales the oracle value by |c| *)
Lemma eigmax_scale (S : nat -> nat -> R) (m c : R) :
  is_abs_eigmax S m -> is_abs_eigmax (fun k l => c * S k l) (Rabs c * m).
Proof.
  intros ((lam & v & (Hv & He) & Hm) & Hmax). split.
  - exists (c * lam), v. split; [split; [exact Hv|]|].
    + intros k Hk. replace (c * lam * v k) with (c * (lam * v k)) by ring.
      rewrite <- (He k Hk). ring.
    + rewrite Rabs_mult, Hm. reflexivity.
  - intros lam' v' (Hv' & He').
    destruct (Req_dec c 0) as [->|Hc].
    + rewrite Rabs_R0, Rmult_0_l.
      assert (lam' = 0); [|subst; rewrite Rabs_R0; lra].
      destruct Hv' as [H|[H|H]];
        [pose proof (He' 0%nat ltac:(lia)) as Q | pose proof (He' 1%nat ltac:(lia)) as Q
        | pose proof (He' 2%nat ltac:(lia)) as Q];
        rewrite !Rmult_0_l in Q; nra.
    + assert (Hl : Rabs (lam' / c) <= m).
      { apply (Hmax (lam' / c) v'). split; [exact Hv'|]. intros k Hk.
        specialize (He' k Hk). apply Rmult_eq_reg_l with c; [|exact Hc].
        replace (c * (lam' / c * v' k)) with (lam' * v' k) by (field; exact Hc).
        rewrite <- He'. ring. }
      replace lam' with (c * (lam' / c)) by (field; exact Hc).
      rewrite Rabs_mult. apply Rmult_le_compat_l; [apply Rabs_pos|exact Hl].
Qed.

Theorem strain_increment_homogeneous_proof (dt c : R) (L : arr R) (m : R) :
  @k_strain_increment NumR (c * dt) L m = Rabs c * @k_strain_increment NumR dt L m /\
  @k_strain_increment NumR dt L (Rabs c * m) = Rabs c * @k_strain_increment NumR dt L m /\
  (is_abs_eigmax (sym3 L) m ->
   is_abs_eigmax (sym3 (fun k => c * L k)) (Rabs c * m)).
Proof.
  unfold k_strain_increment. numR. split; [rewrite Rabs_mult; ring|]. split; [ring|].
  intros H. pose proof (eigmax_scale (sym3 L) m c H) as Hs.
  destruct Hs as ((lam & v & (Hv & He) & Hm) & Hmax). split.
  - exists lam, v. split; [split; [exact Hv|]|exact Hm].
    intros k Hk. rewrite <- (He k Hk). unfold sym3. field.
  - intros lam' v' (Hv' & He'). apply (Hmax lam' v'). split; [exact Hv'|].
    intros k Hk. rewrite <- (He' k Hk). unfold sym3. field.
Qed.
